from __future__ import annotations

import argparse
import glob
import os
import sys

from .run import ROOT, check, replay


def main() -> int:
    ap = argparse.ArgumentParser(prog="vf")
    sub = ap.add_subparsers(dest="cmd", required=True)
    c = sub.add_parser("check")
    c.add_argument("prop")
    c.add_argument("--tier", default=os.environ.get("VERIF_TIER", "quick"), choices=["quick", "thorough"])
    c.add_argument("--only", default=None, help="comma-separated harness names (development aid; evidence is partial)")
    r = sub.add_parser("replay")
    r.add_argument("path")
    sub.add_parser("list")
    a = ap.parse_args()
    if a.cmd == "check":
        try:
            seed = int(os.environ.get("VERIF_SEED", "0") or 0)
        except ValueError:
            seed = 0
        return check(a.prop.upper(), a.tier, seed, a.only)
    if a.cmd == "replay":
        return replay(a.path)
    if a.cmd == "list":
        for f in sorted(glob.glob(os.path.join(ROOT, "harness", "c*.py"))):
            print(os.path.basename(f)[:-3].upper())
        return 0
    return 2


if __name__ == "__main__":
    sys.exit(main())
