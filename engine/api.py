"""Harness-facing API.

A harness is an ordinary Python function over int / bool / str parameters that
builds objects through htmltools' public API, calls the real code, and returns
True iff the property's relation holds.  The engine executes it symbolically
(CrossHair + z3) once per shard and asks the solver whether it can return False.

    @harness("C02", pre=lambda B, s: len(s) <= B["L"],
             bounds={"quick": {"L": 3}, "thorough": {"L": 5}},
             sym=["s"], targets=["htmltools._util.html_escape"])
    def k_escape_text(s: str) -> bool: ...
"""
from __future__ import annotations

import inspect
import itertools
from dataclasses import dataclass, field
from typing import Any, Callable, Dict, List, Optional

REGISTRY: Dict[str, "Harness"] = {}
# bounds of the tier being run, visible to harness bodies (set by the worker / native runner before a harness runs)
CURRENT: Dict[str, Any] = {}


@dataclass
class Harness:
    prop: str
    fn: Callable[..., bool]
    pre: Callable[..., bool]
    bounds: Dict[str, Dict[str, Any]]
    shard: Any = None  # dict name->iterable, or callable(B)->dict / list[dict]
    sym: List[str] = field(default_factory=list)
    sel: List[str] = field(default_factory=list)
    targets: List[str] = field(default_factory=list)
    stubs: List[str] = field(default_factory=list)
    regions: Dict[str, Callable[..., bool]] = field(default_factory=dict)
    timeout: Dict[str, float] = field(default_factory=dict)
    note: str = ""
    outside: str = ""
    replay_native: Optional[Callable[..., bool]] = None  # stronger native re-check
    expect_witness: bool = True

    @property
    def name(self) -> str:
        return self.fn.__name__

    @property
    def params(self) -> List[str]:
        return list(inspect.signature(self.fn).parameters)

    def B(self, tier: str) -> Dict[str, Any]:
        b = dict(self.bounds.get("quick", {}))
        if tier == "thorough":
            b.update(self.bounds.get("thorough", {}))
        return b

    def shards(self, tier: str) -> List[Dict[str, Any]]:
        B = self.B(tier)
        sh = self.shard(B) if callable(self.shard) else self.shard
        if not sh:
            return [{}]
        if isinstance(sh, list):
            return sh
        keys = list(sh)
        return [dict(zip(keys, vals)) for vals in itertools.product(*[list(sh[k]) for k in keys])]

    def budget(self, tier: str) -> float:
        t = dict({"quick": 150.0, "thorough": 900.0})
        t.update(self.timeout)
        return float(t[tier])


def harness(prop: str, *, pre: Callable[..., bool], bounds: Dict[str, Dict[str, Any]] | None = None, **kw: Any):
    def deco(fn: Callable[..., bool]) -> Callable[..., bool]:
        h = Harness(prop=prop, fn=fn, pre=pre, bounds=bounds or {"quick": {}}, **kw)
        REGISTRY[f"{prop}.{fn.__name__}"] = h
        return fn

    return deco


def harnesses_for(prop: str) -> List[Harness]:
    return [h for k, h in REGISTRY.items() if h.prop == prop]


# ---------------------------------------------------------------------------
# helpers usable inside harness bodies (must be CrossHair friendly)


def in_alphabet(s: str, alphabet: str) -> bool:
    """Every character of s is in alphabet (forks per character under CrossHair)."""
    for c in s:
        if c not in alphabet:
            return False
    return True


def pick(k: int, options):
    """Select options[k] with an if-chain so that CrossHair forks on k (never index a
    concrete list with a symbolic int: that realises k)."""
    n = len(options)
    for i in range(n - 1):
        if k == i:
            return options[i]
    return options[n - 1]


def conc(k: int, lo: int, hi: int) -> int:
    """The concrete value of a selector: forks on k (lo <= k <= hi) and returns a plain Python int."""
    for i in range(lo, hi):
        if k == i:
            return i
    return hi


def concrete(fn, *args):
    """Run fn(*args) with CrossHair's tracer suspended.

    Only for calls whose arguments are all concrete on the current path (selectors already resolved with
    pick()/conc()).  Then tracing cannot change the result - it only interprets the same concrete byte-code
    ~50x slower - so suspending it is an optimisation, not an abstraction.  If a symbolic value does slip in,
    CrossHair raises CrossHairInternal ("... on symbolic while not tracing") and the shard is reported as an
    error, never as a pass.  Natively (replay, witnesses) this is a plain call."""
    try:
        from crosshair.tracers import NoTracing, is_tracing
    except ImportError:  # pragma: no cover
        return fn(*args)
    if is_tracing():
        with NoTracing():
            r = fn(*args)
            # the body builds fresh objects from its arguments, so a second call must agree: this exposes state the library
            # keeps between calls (a cache keyed by value, a mutated module global) at the cost of one more concrete run
            return r and fn(*args)
    r = fn(*args)
    return r and fn(*args)
