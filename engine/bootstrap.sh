#!/bin/bash
# Build /verif/.venv (overlay on /venv + crosshair-tool from the offline wheelhouse).
# Idempotent, safe under concurrent invocation (flock).
set -e
V="$(cd "$(dirname "$0")/.." && pwd)"
[ -f "$V/.venv/.ok" ] && exit 0
exec 9>"$V/.venv.lock"
flock 9
[ -f "$V/.venv/.ok" ] && exit 0
rm -rf "$V/.venv"
/venv/bin/python -m venv "$V/.venv" >&2
SP="$V/.venv/lib/python3.12/site-packages"
echo "import site; site.addsitedir('/venv/lib/python3.12/site-packages')" > "$SP/_chain_venv.pth"
PIP_NO_INDEX=1 "$V/.venv/bin/pip" install -q --no-index --find-links /opt/veriftools/wheels crosshair-tool >&2
"$V/.venv/bin/python" -c "import crosshair, z3, htmltools, packaging" >&2
touch "$V/.venv/.ok"
