"""Three corrections to CrossHair 0.0.110's model of CPython, applied in every symbolic worker.

All make the model *more* faithful to CPython (they are not abstractions of /repo code), and
all are validated the usual way: every counterexample and every witness is re-run natively.

1. format(x, "") for a collections.UserString instance (htmltools.HTML) without its own
   __format__ is object.__format__, i.e. str(x).  CrossHair formatted it through a path that
   forks per character when x wraps a symbolic string (f' {key}="{val}"' in
   Tag.get_html_string never finished for |val| <= 1); returning x.__str__() keeps the value symbolic.

3. str equality: CrossHair keeps a symbolic string's code points in list-like or tuple-like
   containers (SymbolicBoundedIntTuple models a tuple; slices and concatenations hold lists), and
   LazyIntSymbolicStr.__eq__ compared the containers with ==, so `tuple-like == list-like` came out
   False even when the characters were equal: ("\x01 ").split()[0] == "\x01" was False while the
   reflected comparison was True.  Code points are now compared position by position whatever the
   container types are (one SMT conjunction when a SymbolicBoundedIntTuple is involved).

2. CPython evaluates `"a" + obj` for a non-str obj by falling back to type(obj).__radd__
   (str has no nb_add slot).  CrossHair's symbolic str.__add__ raised TypeError instead, so
   `plain + HTML()` could not be executed; returning NotImplemented restores the dispatch.
"""
from __future__ import annotations

from collections import UserString


def apply() -> None:
    import crosshair.core_and_libs  # noqa: F401
    from crosshair import opcode_intercept as oi
    from crosshair.libimpl import builtinslib as bl
    from crosshair.tracers import NoTracing

    if getattr(oi.FormatStashingValue, "_vf_patched", False):
        return
    orig_fmt = oi.FormatStashingValue.__format__

    def fmt(self, spec: str):
        v = self.value
        if spec == "" and isinstance(v, UserString) and type(v).__format__ is object.__format__:
            self.formatted = v.__str__()
            return ""
        return orig_fmt(self, spec)

    oi.FormatStashingValue.__format__ = fmt  # type: ignore[method-assign]
    oi.FormatStashingValue._vf_patched = True  # type: ignore[attr-defined]

    orig_add = bl.LazyIntSymbolicStr.__add__

    def add(self, other):
        with NoTracing():
            o = bl.typeable_value(other) if hasattr(bl, "typeable_value") else other
            strlike = isinstance(o, (str, bl.AnySymbolicStr))
        if not strlike:
            return NotImplemented
        return orig_add(self, other)

    bl.LazyIntSymbolicStr.__add__ = add  # type: ignore[method-assign]


    # ---- 3. container-type-agnostic comparison of code point sequences
    from crosshair.simplestructs import SequenceConcatenation
    from crosshair.tracers import ResumedTracing

    SBT = bl.SymbolicBoundedIntTuple

    def chunks(seq):
        """leaves of a (possibly deeply left-nested) concatenation tree, left to right; tracing is OFF here"""
        out, stack = [], [seq]
        while stack:
            x = stack.pop()
            if isinstance(x, SequenceConcatenation):
                stack.append(x._second)
                stack.append(x._first)
            else:
                out.append(x)
        return out

    def concrete_ints(x) -> bool:
        if not isinstance(x, (list, tuple)):
            return False
        for v in x:
            if type(v) is not int:
                return False
        return True

    def leaf_eq(sa, sb):  # tracing ON; equal lengths already established
        with NoTracing():
            a_sym, b_sym = isinstance(sa, SBT), isinstance(sb, SBT)
            both_conc = concrete_ints(sa) and concrete_ints(sb)
            if both_conc:
                return list(sa) == list(sb)
        if b_sym:
            return sb.__eq__(sa)
        if a_sym:
            return sa.__eq__(sb)
        for x, y in zip(sa, sb):
            if x != y:
                return False
        return True

    def points_eq(a, b):  # tracing is ON here
        with NoTracing():
            A, B = chunks(a), chunks(b)
            # merge runs of adjacent concrete leaves: long rendered strings are hundreds of tiny concrete pieces
            def merge(parts):
                out = []
                for p_ in parts:
                    if concrete_ints(p_):
                        if len(p_) == 0:
                            continue
                        if out and type(out[-1]) is list and concrete_ints(out[-1]):
                            out[-1] = out[-1] + list(p_)
                        else:
                            out.append(list(p_))
                    else:
                        out.append(p_)
                return out
            A, B = merge(A), merge(B)
            all_conc = all(concrete_ints(x) for x in A) and all(concrete_ints(x) for x in B)
            if all_conc:
                fa = [v for x in A for v in x]
                fb = [v for x in B for v in x]
                return fa == fb
        # total lengths (one fork at most)
        la = 0
        for x in A:
            la = la + x.__len__()
        lb = 0
        for x in B:
            lb = lb + x.__len__()
        if la != lb:
            return False
        i = j = 0
        oa = ob = 0
        while i < len(A) and j < len(B):
            xa, xb = A[i], B[j]
            na = xa.__len__() - oa
            nb = xb.__len__() - ob
            if na == 0:
                i, oa = i + 1, 0
                continue
            if nb == 0:
                j, ob = j + 1, 0
                continue
            if na <= nb:
                n = na
            else:
                n = nb
            with NoTracing():
                from crosshair.core import realize as _realize
                n = _realize(n)
                oa_c, ob_c = _realize(oa), _realize(ob)
            sa = xa[oa_c:oa_c + n]
            sb = xb[ob_c:ob_c + n]
            if not leaf_eq(sa, sb):
                return False
            oa, ob = oa_c + n, ob_c + n
        # both exhausted (total lengths are equal)
        return True

    def str_eq(self, other):
        with NoTracing():
            mypoints = self._codepoints
            if isinstance(other, bl.LazyIntSymbolicStr):
                otherpoints = other._codepoints
            elif isinstance(other, str):
                otherpoints = [ord(ch) for ch in other]
            else:
                return NotImplemented
        with ResumedTracing():
            return points_eq(mypoints, otherpoints)

    bl.LazyIntSymbolicStr.__eq__ = str_eq  # type: ignore[method-assign]
