"""Two corrections to CrossHair 0.0.110's model of CPython, applied in every symbolic worker.

Both make the model *more* faithful to CPython (they are not abstractions of /repo code), and
both are validated the usual way: every counterexample and every witness is re-run natively.

1. format(x, "") for a collections.UserString instance (htmltools.HTML) without its own
   __format__ is object.__format__, i.e. str(x).  CrossHair formatted it through a path that
   forks per character when x wraps a symbolic string (f' {key}="{val}"' in
   Tag.get_html_string never finished for |val| <= 1); returning x.__str__() keeps the value symbolic.

2. CPython evaluates `"a" + obj` for a non-str obj by falling back to type(obj).__radd__
   (str has no nb_add slot).  CrossHair's symbolic str.__add__ raised TypeError instead, so
   `plain + HTML()` could not be executed; returning NotImplemented restores the dispatch.
"""
from __future__ import annotations

from collections import UserString


def apply() -> None:
    import crosshair.core_and_libs  # noqa: F401
    from crosshair import opcode_intercept as oi
    from crosshair.libimpl import builtinslib as bl
    from crosshair.tracers import NoTracing

    if getattr(oi.FormatStashingValue, "_vf_patched", False):
        return
    orig_fmt = oi.FormatStashingValue.__format__

    def fmt(self, spec: str):
        v = self.value
        if spec == "" and isinstance(v, UserString) and type(v).__format__ is object.__format__:
            self.formatted = v.__str__()
            return ""
        return orig_fmt(self, spec)

    oi.FormatStashingValue.__format__ = fmt  # type: ignore[method-assign]
    oi.FormatStashingValue._vf_patched = True  # type: ignore[attr-defined]

    orig_add = bl.LazyIntSymbolicStr.__add__

    def add(self, other):
        with NoTracing():
            o = bl.typeable_value(other) if hasattr(bl, "typeable_value") else other
            strlike = isinstance(o, (str, bl.AnySymbolicStr))
        if not strlike:
            return NotImplemented
        return orig_add(self, other)

    bl.LazyIntSymbolicStr.__add__ = add  # type: ignore[method-assign]
