"""Three corrections to CrossHair 0.0.110's model of CPython, applied in every symbolic worker.

All make the model *more* faithful to CPython (they are not abstractions of /repo code), and
all are validated the usual way: every counterexample and every witness is re-run natively.

1. format(x, "") for a collections.UserString instance (htmltools.HTML) without its own
   __format__ is object.__format__, i.e. str(x).  CrossHair formatted it through a path that
   forks per character when x wraps a symbolic string (f' {key}="{val}"' in
   Tag.get_html_string never finished for |val| <= 1); returning x.__str__() keeps the value symbolic.

3. str equality: CrossHair keeps a symbolic string's code points in list-like or tuple-like
   containers (SymbolicBoundedIntTuple models a tuple; slices and concatenations hold lists), and
   LazyIntSymbolicStr.__eq__ compared the containers with ==, so `tuple-like == list-like` came out
   False even when the characters were equal: ("\x01 ").split()[0] == "\x01" was False while the
   reflected comparison was True.  Code points are now compared position by position whatever the
   container types are (one SMT conjunction when a SymbolicBoundedIntTuple is involved).

2. CPython evaluates `"a" + obj` for a non-str obj by falling back to type(obj).__radd__
   (str has no nb_add slot).  CrossHair's symbolic str.__add__ raised TypeError instead, so
   `plain + HTML()` could not be executed; returning NotImplemented restores the dispatch.
"""
from __future__ import annotations

from collections import UserString


def apply() -> None:
    import crosshair.core_and_libs  # noqa: F401
    from crosshair import opcode_intercept as oi
    from crosshair.libimpl import builtinslib as bl
    from crosshair.tracers import NoTracing

    if getattr(oi.FormatStashingValue, "_vf_patched", False):
        return
    orig_fmt = oi.FormatStashingValue.__format__

    def fmt(self, spec: str):
        v = self.value
        if spec == "" and isinstance(v, UserString) and type(v).__format__ is object.__format__:
            self.formatted = v.__str__()
            return ""
        return orig_fmt(self, spec)

    oi.FormatStashingValue.__format__ = fmt  # type: ignore[method-assign]
    oi.FormatStashingValue._vf_patched = True  # type: ignore[attr-defined]

    orig_add = bl.LazyIntSymbolicStr.__add__

    def add(self, other):
        with NoTracing():
            o = bl.typeable_value(other) if hasattr(bl, "typeable_value") else other
            strlike = isinstance(o, (str, bl.AnySymbolicStr))
        if not strlike:
            return NotImplemented
        return orig_add(self, other)

    bl.LazyIntSymbolicStr.__add__ = add  # type: ignore[method-assign]


    # ---- 3. container-type-agnostic comparison of code point sequences
    from crosshair.simplestructs import SequenceConcatenation
    from crosshair.tracers import ResumedTracing

    SBT = bl.SymbolicBoundedIntTuple

    def points_eq(a, b):  # tracing is ON here
        with NoTracing():
            a_sym, b_sym = isinstance(a, SBT), isinstance(b, SBT)
            a_cat, b_cat = isinstance(a, SequenceConcatenation), isinstance(b, SequenceConcatenation)
            both_real = isinstance(a, (list, tuple)) and isinstance(b, (list, tuple))
        if b_sym:
            return b.__eq__(a)
        if a_sym:
            return a.__eq__(b)
        if a_cat or b_cat:
            if b_cat and not a_cat:
                a, b = b, a
            if a.__len__() != b.__len__():
                return False
            n = a._first.__len__()
            if not points_eq(a._first, b[:n]):
                return False
            return points_eq(a._second, b[n:])
        if both_real:
            with NoTracing():
                same_kind = type(a) is type(b)
            if same_kind:
                return a == b
        if a.__len__() != b.__len__():
            return False
        for x, y in zip(a, b):
            if x != y:
                return False
        return True

    def str_eq(self, other):
        with NoTracing():
            mypoints = self._codepoints
            if isinstance(other, bl.LazyIntSymbolicStr):
                otherpoints = other._codepoints
            elif isinstance(other, str):
                otherpoints = [ord(ch) for ch in other]
            else:
                return NotImplemented
        with ResumedTracing():
            return points_eq(mypoints, otherpoints)

    bl.LazyIntSymbolicStr.__eq__ = str_eq  # type: ignore[method-assign]
