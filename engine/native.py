"""Native (no CrossHair) execution of a harness on concrete arguments, in a fresh interpreter.

Used for (a) replaying solver counterexamples against the real code before anything is
reported, and (b) cross-checking witness inputs and recording which htmltools functions
the harness really executes ("functions encoded").
"""
from __future__ import annotations

import importlib
import json
import os
import sys
import traceback
from typing import Any, Dict


def run(job: Dict[str, Any]) -> Dict[str, Any]:
    importlib.import_module(job["module"])
    from engine.api import REGISTRY

    h = REGISTRY[job["key"]]
    args = job["args"]
    out: Dict[str, Any] = {}
    B = h.B(job["tier"])
    from engine import api

    api.CURRENT.clear()
    api.CURRENT.update(B)
    api.CURRENT["SEED"] = int(job.get("seed", 0))
    try:
        out["pre"] = bool(h.pre(B, **args))
    except Exception as e:  # noqa: BLE001
        out["pre"] = None
        out["pre_exception"] = f"{type(e).__name__}: {e}"
    seen = set()
    repo_root = os.path.realpath(os.path.dirname(importlib.import_module("htmltools").__file__))

    def prof(frame, event, arg):
        if event == "call":
            co = frame.f_code
            fn = co.co_filename
            if fn.startswith(repo_root):
                mod = "htmltools." + os.path.splitext(os.path.basename(fn))[0]
                seen.add(mod + "." + getattr(co, "co_qualname", co.co_name))

    fn = h.replay_native if (job.get("strong") and h.replay_native) else h.fn
    if job.get("profile"):
        sys.setprofile(prof)
    try:
        r = fn(**args)
        out["result"] = bool(r)
        if out["result"] and job.get("strong"):
            # A second identical call in the same interpreter: a counterexample that only shows once the library
            # carries state from an earlier call (a cache, a mutated input) is still a failure of the real code.
            r2 = fn(**args)
            out["result"] = bool(r2)
            out["second_call"] = True
    except Exception as e:  # noqa: BLE001
        out["result"] = None
        out["exception"] = f"{type(e).__name__}: {e}"
        out["traceback"] = traceback.format_exc()[-2000:]
    finally:
        sys.setprofile(None)
    out["functions"] = sorted(seen)
    out["htmltools_file"] = repo_root
    return out


def main() -> None:
    job = json.load(sys.stdin)
    sys.setrecursionlimit(10000)
    try:
        if "batch" in job:
            res = {"batch": [run({**job, "args": a}) for a in job["batch"]]}
        else:
            res = run(job)
    except BaseException as e:  # noqa: BLE001
        res = {"error": f"{type(e).__name__}: {e}\n{traceback.format_exc()[-3000:]}"}
    sys.stdout.write("\n@@RESULT@@" + json.dumps(res) + "\n")


if __name__ == "__main__":
    main()
