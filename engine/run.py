"""Orchestrator: shards -> symbolic workers -> verdicts -> native replay -> evidence."""
from __future__ import annotations

import hashlib
import importlib
import json
import os
import subprocess
import sys
import threading
import time
from concurrent.futures import ThreadPoolExecutor
from typing import Any, Dict, List, Optional, Tuple

from .api import Harness, harnesses_for

ROOT = os.path.dirname(os.path.dirname(os.path.abspath(__file__)))
NPROC = int(os.environ.get("VERIF_JOBS", "16"))
PY = sys.executable


def _sub(module: str, job: Dict[str, Any], wall: float) -> Dict[str, Any]:
    env = dict(os.environ)
    env["PYTHONDONTWRITEBYTECODE"] = "1"
    env.setdefault("PYTHONHASHSEED", "0")
    try:
        p = subprocess.run([PY, "-m", module], input=json.dumps(job), capture_output=True, text=True,
                           timeout=wall, cwd=ROOT, env=env)
    except subprocess.TimeoutExpired:
        return {"error": f"wall timeout after {wall:.0f}s", "timeout": True}
    for line in reversed(p.stdout.splitlines()):
        if line.startswith("@@RESULT@@"):
            return json.loads(line[len("@@RESULT@@"):])
    return {"error": f"worker died rc={p.returncode}: {p.stderr[-1500:]}"}


def load_known(prop: str) -> Tuple[List[Dict[str, Any]], List[Dict[str, Any]]]:
    path = os.path.join(ROOT, "known_findings.json")
    if not os.path.exists(path):
        return [], []
    data = json.load(open(path))
    ents = [e for e in data.get("findings", []) if e.get("property") == prop]
    return [e for e in ents if e.get("status") == "known"], [e for e in ents if e.get("status") == "fixed"]


_SEED = [0]


def native(h: Harness, module: str, tier: str, args: Dict[str, Any], *, profile: bool = False, strong: bool = True) -> Dict[str, Any]:
    job = {"module": module, "key": f"{h.prop}.{h.name}", "tier": tier, "args": args, "profile": profile, "strong": strong, "seed": _SEED[0]}
    return _sub("engine.native", job, 300)


def reproduces(nat: Dict[str, Any]) -> bool:
    """A counterexample counts only if, natively, it satisfies the precondition and the harness
    returns False or raises."""
    if "error" in nat:
        return False
    if nat.get("pre") is not True:
        return False
    return nat.get("result") is not True


def write_replay(prop: str, h: Harness, module: str, tier: str, args: Dict[str, Any], nat: Dict[str, Any]) -> str:
    blob = json.dumps(args, sort_keys=True)
    hid = hashlib.sha1((h.name + blob).encode()).hexdigest()[:10]
    path = os.path.join(os.environ.get("VERIF_REPLAY_DIR") or os.path.join(ROOT, "replays"), f"{prop}-{h.name}-{hid}.json")
    os.makedirs(os.path.dirname(path), exist_ok=True)
    with open(path, "w") as f:
        json.dump({"property": prop, "module": module, "key": f"{prop}.{h.name}", "tier": tier, "args": args, "seed": _SEED[0],
                   "native": {k: nat.get(k) for k in ("pre", "result", "exception", "traceback")},
                   "how": f"./vf replay {os.path.relpath(path, ROOT)}"}, f, indent=1)
    return path


def check(prop: str, tier: str, seed: int, only: Optional[str] = None) -> int:
    t_start = time.time()
    _SEED[0] = seed
    module = f"harness.{prop.lower()}"
    importlib.import_module(module)
    hs = harnesses_for(prop)
    if only:
        hs = [h for h in hs if h.name in only.split(",")]
    if not hs:
        print(f"HARNESS-ERROR no harness registered for {prop}")
        return 2
    known, fixed = load_known(prop)

    jobs: List[Tuple[Harness, Dict[str, Any]]] = []
    for h in hs:
        excl = [k["region"] for k in known if k["harness"] == h.name]
        for k in excl:
            if k not in h.regions:
                print(f"HARNESS-ERROR known finding names unknown region {k} of {h.name}")
                return 2
        shards = h.shards(tier)
        # rotate shard order by seed (does not change what is covered)
        if shards and seed:
            r = seed % len(shards)
            shards = shards[r:] + shards[:r]
        for sh in shards:
            # a shard that lies entirely inside an excluded (known-finding) region has no main obligation
            inside = any(getattr(h.regions[k], "shard_inside", lambda s_: False)(sh) for k in excl)
            if not inside:
                jobs.append((h, {"module": module, "key": f"{prop}.{h.name}", "tier": tier, "shard": sh, "kind": "main",
                                 "exclude": excl, "timeout": h.budget(tier), "seed": seed}))
            for k in excl:
                if _region_possible(h, k, sh):
                    jobs.append((h, {"module": module, "key": f"{prop}.{h.name}", "tier": tier, "shard": sh,
                                     "kind": "region", "region": k, "timeout": min(h.budget(tier), 120.0), "seed": seed}))

    lock = threading.Lock()
    results: List[Tuple[Harness, Dict[str, Any], Dict[str, Any]]] = []
    verbose = bool(os.environ.get("VERIF_VERBOSE"))

    def run_one(item):
        h, job = item
        res = _sub("engine.worker", job, job["timeout"] * 2.5 + 60)
        with lock:
            results.append((h, job, res))
            if verbose:
                m = res.get("main", {})
                print(f"  .. {h.name} {job['kind']} {job['shard']} -> {m.get('status')} paths={m.get('paths')} "
                      f"wall={m.get('wall_s')} {res.get('error', '')[:300]}", flush=True)
        return res

    # longest budgets first
    with ThreadPoolExecutor(max_workers=NPROC) as ex:
        list(ex.map(run_one, jobs))

    # ---- verdicts
    exit_code = 0
    violations = 0
    lines: List[str] = []
    per_shard: List[Dict[str, Any]] = []
    tot = {"paths": 0, "reached": 0, "z3": 0, "z3_time": 0.0, "traces": 0}
    obligations = discharged = 0
    witnesses: List[Tuple[Harness, Dict[str, Any]]] = []
    samples: List[Any] = []
    harness_errors: List[str] = []
    known_seen: Dict[str, bool] = {}

    for h, job, res in sorted(results, key=lambda x: (x[0].name, json.dumps(x[1]["shard"], sort_keys=True), x[1]["kind"])):
        shard = job["shard"]
        tag = f"{h.name}{shard if shard else ''}"
        if job["kind"] == "region":
            m = res.get("main") or {}
            _acc(tot, m)
            key = f"{h.name}:{job['region']}"
            if m.get("status") == "REFUTED" and m.get("cex") is not None:
                nat = native(h, module, tier, m["cex"])
                tot["traces"] += 1
                if reproduces(nat):
                    known_seen[key] = True
                    samples.append({"known_finding_example": m["cex"], "harness": h.name})
            known_seen.setdefault(key, False)
            per_shard.append({"harness": h.name, "shard": shard, "kind": "known-region:" + job["region"], "status": m.get("status", "ERROR")})
            continue
        obligations += 1
        if "error" in res and "main" not in res:
            if res.get("timeout"):
                lines.append(f"INCONCLUSIVE shard={tag} {res['error']}")
                per_shard.append({"harness": h.name, "shard": shard, "status": "UNKNOWN", "why": res["error"]})
            else:
                harness_errors.append(f"{tag}: {res['error'][:1500]}")
                per_shard.append({"harness": h.name, "shard": shard, "status": "ERROR", "why": res["error"][:300]})
            continue
        m = res["main"]
        _acc(tot, m)
        row = {"harness": h.name, "shard": shard, "status": m["status"], "paths": m["paths"], "reached_post": m["reached_post"],
               "z3_checks": m["z3_checks"], "z3_time_s": m["z3_time_s"], "wall_s": m["wall_s"]}
        per_shard.append(row)
        if m["status"] == "CONFIRMED":
            tw = res.get("twin")
            if not h.expect_witness:
                discharged += 1
            elif tw is None:
                harness_errors.append(f"{tag}: twin missing: {res.get('error', '')[:500]}")
            else:
                _acc(tot, tw)
                row["twin"] = tw["status"]
                if tw["status"] == "REFUTED" and tw.get("cex") is not None:
                    discharged += 1
                    witnesses.append((h, tw["cex"]))
                elif tw["status"] == "CONFIRMED":
                    harness_errors.append(f"{tag}: vacuous - no path returns True (twin CONFIRMED)")
                else:
                    lines.append(f"INCONCLUSIVE shard={tag} witness twin {tw['status']} {tw.get('messages')}")
        elif m["status"] == "REFUTED":
            cex = m.get("cex")
            if cex is None:
                lines.append(f"INCONCLUSIVE shard={tag} refuted without arguments: {m.get('messages')}")
                continue
            nat = native(h, module, tier, cex)
            tot["traces"] += 1
            row["cex"] = cex
            if reproduces(nat):
                path = write_replay(prop, h, module, tier, cex, nat)
                violations += 1
                exit_code = 1
                row["replayed"] = "fails natively"
                samples.append({"violation": cex, "harness": h.name, "native": nat.get("exception") or "returned False"})
                lines.append(f"VIOLATION property={prop} replay={path}")
                lines.append(f"  harness={h.name} args={json.dumps(cex)} native={'raised ' + nat['exception'] if nat.get('exception') else 'returned False'}")
            else:
                row["replayed"] = "passes natively (spurious)"
                lines.append(f"INCONCLUSIVE shard={tag} spurious counterexample {json.dumps(cex)} "
                             f"({m.get('messages')}; native: {({k: nat.get(k) for k in ('pre', 'result', 'exception', 'error')})})")
        else:
            why = "; ".join(x[1] for x in m.get("messages", []))[:300]
            row["why"] = why
            lines.append(f"INCONCLUSIVE shard={tag} explored {m['paths']} paths in {m['wall_s']}s: {why}")

    # ---- witnesses: native cross-check + functions really executed
    functions: set = set()
    mismatches = 0
    by_h: Dict[str, List[Dict[str, Any]]] = {}
    for h, w in witnesses:
        by_h.setdefault(h.name, []).append(w)
    hmap = {h.name: h for h in hs}

    def wit(item):
        hn, ws = item
        job = {"module": module, "key": f"{prop}.{hn}", "tier": tier, "batch": ws, "profile": True, "strong": False, "seed": seed}
        return hn, ws, _sub("engine.native", job, 600)

    def spread(ws: List[Dict[str, Any]], n: int) -> List[Dict[str, Any]]:
        if len(ws) <= n:
            return ws
        step = len(ws) / n
        return [ws[int(i * step)] for i in range(n)]

    todo = [(hn, spread(ws, 64)) for hn, ws in by_h.items()]
    with ThreadPoolExecutor(max_workers=NPROC) as ex:
        for hn, ws, res in ex.map(wit, todo):
            if "batch" not in res:
                harness_errors.append(f"{hn}: native witness run failed: {res.get('error', '')[:500]}")
                continue
            for w, nat in zip(ws, res["batch"]):
                tot["traces"] += 1
                if nat.get("result") is True and nat.get("pre") is True:
                    functions.update(nat.get("functions", []))
                    if len([s for s in samples if isinstance(s, dict) and s.get("harness") == hn]) < 3:
                        samples.append({"witness": w, "harness": hn})
                elif nat.get("pre") is True and "error" not in nat:
                    # The solver said this in-bounds input satisfies the relation, the real interpreter says it does not:
                    # CrossHair's execution diverged from CPython (e.g. a cache that is inert under the tracer). The native
                    # run is a run of the real code on a concrete in-bounds input, so it is reported as what it is.
                    mismatches += 1
                    path = write_replay(prop, hmap[hn], module, tier, w, nat)
                    violations += 1
                    exit_code = 1
                    samples.append({"violation": w, "harness": hn, "native": nat.get("exception") or "returned False", "found_by": "native witness cross-check"})
                    lines.append(f"VIOLATION property={prop} replay={path}")
                    lines.append(f"  harness={hn} args={json.dumps(w)} native={'raised ' + nat['exception'] if nat.get('exception') else 'returned False'} "
                                 f"(symbolic execution passed this input; found by the native witness cross-check)")
                else:
                    mismatches += 1
                    harness_errors.append(f"{hn}: witness {w} could not be checked natively: {nat}")
    missing = sorted({t for h in hs for t in h.targets} - functions) if witnesses else []

    printed = set()
    for k in known:
        key = f"{k['harness']}:{k['region']}"
        if known_seen.get(key):
            ln = f"KNOWN-FINDING: property={prop} {k['what']} (e.g. {k.get('example', '')})"
            if ln not in printed:
                lines.append(ln)
                printed.add(ln)
        elif key in known_seen:
            lines.append(f"NOTE known finding {key} did not reproduce in this run")

    if harness_errors and exit_code == 0:
        exit_code = 2
    for e in harness_errors:
        lines.append("HARNESS-ERROR " + e)
    if missing:
        lines.append(f"NOTE target functions not executed by any witness: {missing}")

    wall = time.time() - t_start
    exhaustive = obligations > 0 and discharged == obligations
    ev = {
        "property_id": prop, "tier": tier, "seed": seed, "level": "model_checking",
        "coverage": {
            "states": tot["paths"], "transitions": tot["z3"], "traces_validated_against_impl": tot["traces"],
            "evaluations": tot["paths"], "distinct_nontrivial": tot["reached"],
            "rule": "one evaluation = one symbolic execution path of a harness through the real /repo byte-code (CrossHair); "
                    "non-trivial = the path satisfied every precondition and reached the postcondition, where z3 was asked "
                    "whether the harness can return False; distinct because CrossHair's path tree never repeats a decision sequence",
            "obligations": obligations, "discharged": discharged,
            "exhaustive": exhaustive,
            "explanation": "obligation = (harness, shard); discharged = CrossHair exhausted the path tree with the postcondition "
                           "proved on every path (CONFIRMED) and the reachability twin (postcondition negated) was REFUTED",
            "solver": "z3 " + _z3_version(), "solver_time_s": round(tot["z3_time"], 2), "solver_queries": tot["z3"],
            "functions_encoded": sorted(functions), "targets_not_executed": missing,
            "harnesses": [{"name": h.name, "symbolic_infinite": h.sym, "selectors": h.sel, "bounds": h.B(tier),
                           "shards": len(h.shards(tier)), "stubs": h.stubs, "outside_claim": h.outside, "note": h.note,
                           "budget_s_per_shard": h.budget(tier)} for h in hs],
            "per_shard": per_shard if len(per_shard) <= 400 else per_shard[:400] + [{"truncated": len(per_shard) - 400}],
            "samples": samples[:40] or [{"note": "no witness recorded"}],
            "known_findings": [k["what"] for k in known], "fixed_findings": [k["what"] for k in fixed],
            "witness_native_mismatches": mismatches,
        },
        "assumptions": sorted({a for h in hs for a in (h.stubs + ([h.outside] if h.outside else []))} | {
            "CrossHair 0.0.110 models CPython semantics of the executed byte-code faithfully on confirmed paths "
            "(every counterexample and every witness is re-run natively)",
            "claims hold only inside the stated bounds (string lengths, integer ranges, selector grammars)"}),
        "wall_s": round(wall, 2), "violations": violations,
    }
    evdir = os.environ.get("VERIF_EVIDENCE_DIR") or os.path.join(ROOT, "evidence")  # redirected only by tools/selftest.py
    os.makedirs(evdir, exist_ok=True)
    with open(os.path.join(evdir, f"{prop}.json"), "w") as f:
        json.dump(ev, f, indent=1, sort_keys=False)
        f.write("\n")

    for ln in lines:
        print(ln)
    print(f"SUMMARY property={prop} tier={tier} obligations={obligations} discharged={discharged} paths={tot['paths']} "
          f"z3_checks={tot['z3']} z3_time={tot['z3_time']:.1f}s violations={violations} wall={wall:.1f}s exit={exit_code}")
    return exit_code


def _region_possible(h: Harness, region: str, shard: Dict[str, Any]) -> bool:
    """Skip region jobs for shards where the region predicate is already false on the shard keys alone
    (regions may declare `region.shard_filter`)."""
    f = getattr(h.regions[region], "shard_filter", None)
    return True if f is None else bool(f(shard))


def _acc(tot: Dict[str, Any], m: Dict[str, Any]) -> None:
    tot["paths"] += m.get("paths", 0)
    tot["reached"] += m.get("reached_post", 0)
    tot["z3"] += m.get("z3_checks", 0)
    tot["z3_time"] += m.get("z3_time_s", 0.0)


def _z3_version() -> str:
    try:
        import z3

        return z3.get_version_string()
    except Exception:  # noqa: BLE001
        return "?"


def replay(path: str) -> int:
    rec = json.load(open(path))
    importlib.import_module(rec["module"])
    from .api import REGISTRY

    h = REGISTRY[rec["key"]]
    _SEED[0] = int(rec.get("seed", 0))
    nat = native(h, rec["module"], rec["tier"], rec["args"])
    print(json.dumps(nat, indent=1))
    if reproduces(nat):
        print(f"VIOLATION property={rec['property']} replay={os.path.abspath(path)}")
        return 1
    print("replay passes on the current tree")
    return 0
