"""Hash-seed model (C18): make PYTHONHASHSEED a solver variable.

PYTHONHASHSEED influences a pure-Python program only through (1) the iteration order of set / frozenset,
(2) the value of hash() on str / bytes, (3) addresses.  load() re-loads htmltools' modules from /repo's *current
source* under the package name `htmltools_nd` through an AST rewrite that turns

    set(...) / frozenset(...) / {a, b} / {x for ...}   ->  NDSet(...)      (iteration order chosen by the run's choice integers)
    a - b, a | b, a & b, a ^ b                         ->  nd_binop(...)   (an NDSet when an operand is a set or a dict view, e.g. d.keys() - {k})
    hash(x)                                            ->  nd_hash(x)      (value of a str chosen by the run's choice integers)

A harness runs a scenario twice with two different choice vectors (solver variables) and requires identical output.
Not modelled: id()-derived text, C extensions.  Every refutation is replayed with real interpreter processes under
different PYTHONHASHSEED values.
"""
from __future__ import annotations

import ast
import importlib.util
import os
import sys
import types
from typing import Any, Iterable, List

PKG = "htmltools_nd"


class Run:
    """choice source for one modelled interpreter process"""

    def __init__(self, choices):
        self.choices = list(choices)
        self.i = 0
        self.hashes = {}
        self.used = 0

    def next(self, n: int) -> int:
        """a choice in [0, n)"""
        if n <= 1:
            return 0
        c = self.choices[self.i % len(self.choices)] if self.choices else 0
        self.i += 1
        self.used += 1
        r = c % n
        # resolve to a plain int so that list slicing stays concrete (forks n ways under CrossHair)
        for k in range(n - 1):
            if r == k:
                return k
        return n - 1


CURRENT: List[Run] = [Run([])]


def set_run(r: Run) -> None:
    CURRENT[0] = r


class NDSet:
    """set semantics, but iteration order is a rotation/reversal chosen per iteration by the current Run"""

    def __init__(self, items: Iterable[Any] = ()):
        self._items: List[Any] = []
        for x in items:
            self.add(x)

    def add(self, x) -> None:
        if x not in self._items:
            self._items.append(x)

    def discard(self, x) -> None:
        if x in self._items:
            self._items.remove(x)

    def remove(self, x) -> None:
        self._items.remove(x)

    def update(self, xs) -> None:
        for x in xs:
            self.add(x)

    def __contains__(self, x) -> bool:
        return x in self._items

    def __len__(self) -> int:
        return len(self._items)

    def __bool__(self) -> bool:
        return len(self._items) > 0

    def __iter__(self):
        n = len(self._items)
        k = CURRENT[0].next(n)
        order = self._items[k:] + self._items[:k]
        if n > 1 and CURRENT[0].next(2) == 1:
            order = order[::-1]
        return iter(order)

    def __eq__(self, other) -> bool:
        if isinstance(other, (NDSet, set, frozenset)):
            return len(self) == len(other) and all(x in other for x in self._items)
        return NotImplemented

    def __or__(self, other):
        return NDSet(list(self._items) + list(other))

    def __and__(self, other):
        return NDSet([x for x in self._items if x in other])

    def __sub__(self, other):
        return NDSet([x for x in self._items if x not in other])

    def __repr__(self) -> str:
        return "{" + ", ".join(repr(x) for x in self) + "}"

    __hash__ = None  # type: ignore[assignment]


_SETLIKE = (set, frozenset, type({}.keys()), type({}.items()))


def nd_binop(op: str, a, b):
    """a - b, a | b, a & b, a ^ b: when either operand is a set, a frozenset, an NDSet or a dict view the result is a set
    in CPython (seed-dependent iteration order), so the model returns an NDSet; every other operand type is untouched."""
    if isinstance(a, _SETLIKE + (NDSet,)) or isinstance(b, _SETLIKE + (NDSet,)):
        la, lb = list(a), list(b)
        if op == "-":
            return NDSet([x for x in la if x not in lb])
        if op == "|":
            return NDSet(la + lb)
        if op == "&":
            return NDSet([x for x in la if x in lb])
        return NDSet([x for x in la if x not in lb] + [x for x in lb if x not in la])
    if op == "-":
        return a - b
    if op == "|":
        return a | b
    if op == "&":
        return a & b
    return a ^ b


def nd_hash(x):
    if isinstance(x, (str, bytes)):
        r = CURRENT[0]
        key = (type(x).__name__, x)
        for k, v in r.hashes.items():
            if k == key:
                return v
        v = 1000003 * (len(r.hashes) + 1) + r.next(97)
        r.hashes[key] = v
        return v
    return hash(x)


class _Rewrite(ast.NodeTransformer):
    def __init__(self):
        self.count = 0

    def _nd(self, name: str) -> ast.expr:
        return ast.Attribute(value=ast.Name(id="nd_rt", ctx=ast.Load()), attr=name, ctx=ast.Load())

    def visit_Call(self, node: ast.Call):
        self.generic_visit(node)
        if isinstance(node.func, ast.Name) and node.func.id in ("set", "frozenset"):
            self.count += 1
            return ast.copy_location(ast.Call(func=self._nd("NDSet"), args=node.args, keywords=node.keywords), node)
        if isinstance(node.func, ast.Name) and node.func.id == "hash":
            self.count += 1
            return ast.copy_location(ast.Call(func=self._nd("nd_hash"), args=node.args, keywords=node.keywords), node)
        return node

    def visit_BinOp(self, node: ast.BinOp):
        self.generic_visit(node)
        ops = {ast.Sub: "-", ast.BitOr: "|", ast.BitAnd: "&", ast.BitXor: "^"}
        sym = ops.get(type(node.op))
        if sym is None:
            return node
        return ast.copy_location(ast.Call(func=self._nd("nd_binop"), args=[ast.Constant(sym), node.left, node.right], keywords=[]), node)

    def visit_Set(self, node: ast.Set):
        self.generic_visit(node)
        self.count += 1
        return ast.copy_location(ast.Call(func=self._nd("NDSet"), args=[ast.List(elts=node.elts, ctx=ast.Load())], keywords=[]), node)

    def visit_SetComp(self, node: ast.SetComp):
        self.generic_visit(node)
        self.count += 1
        lc = ast.ListComp(elt=node.elt, generators=node.generators)
        return ast.copy_location(ast.Call(func=self._nd("NDSet"), args=[lc], keywords=[]), node)


_LOADED = {}


def load():
    """(Re)build the htmltools_nd package from the current source of the real htmltools. Returns the package module."""
    if "pkg" in _LOADED:
        return _LOADED["pkg"]
    import htmltools as real

    root = os.path.dirname(os.path.abspath(real.__file__))
    me = sys.modules[__name__]
    pkg = types.ModuleType(PKG)
    pkg.__path__ = [root]          # sub-modules are pre-loaded below; nothing is imported untransformed
    pkg.__package__ = PKG
    pkg.__file__ = os.path.join(root, "__init__.py")
    sys.modules[PKG] = pkg
    rewrites = {}
    order = ["_versions", "_util", "_core", "_jsx", "tags", "svg"]
    extra = sorted(f[:-3] for f in os.listdir(root) if f.endswith(".py") and f[:-3] not in order and f != "__init__.py")
    mods = {}
    for name in order + extra:
        path = os.path.join(root, name + ".py")
        if not os.path.exists(path):
            continue
        m = types.ModuleType(PKG + "." + name)
        m.__package__ = PKG
        m.__file__ = path
        m.__dict__["nd_rt"] = me
        sys.modules[PKG + "." + name] = m
        setattr(pkg, name, m)
        mods[name] = (m, path)
    for name, (m, path) in mods.items():
        rewrites[name] = _exec(path, m)
    pkg.__dict__["nd_rt"] = me
    rewrites["__init__"] = _exec(os.path.join(root, "__init__.py"), pkg)
    _LOADED["pkg"] = pkg
    _LOADED["rewrites"] = rewrites
    return pkg


def _exec(path: str, module) -> int:
    src = open(path, encoding="utf-8").read()
    tree = ast.parse(src, filename=path)
    rw = _Rewrite()
    tree = ast.fix_missing_locations(rw.visit(tree))
    code = compile(tree, path + "<nd>", "exec")
    exec(code, module.__dict__)
    return rw.count


def rewrites():
    load()
    return dict(_LOADED["rewrites"])
