"""A CrossHair-friendly model of urllib.parse.quote(s) (default safe='/', UTF-8, errors='strict').

The real function walks a per-byte cache dict; a symbolic byte forks 256 ways (measured: one symbolic character did
not finish in 500 s).  The model encodes by range comparison.  It is validated against the real function before any
solving (validate()), and every counterexample found with it is replayed natively against the real quote.
"""
from __future__ import annotations

import urllib.parse

_HEX = "0123456789ABCDEF"
_real_quote = urllib.parse.quote


def _hexd(d: int) -> str:
    # arithmetic instead of table lookup: indexing a table with a symbolic int would enumerate its values
    # '0'..'9' are 48+d, 'A'..'F' are 55+d: one expression, no branch (a branch per digit would double the paths 8 times per character)
    return chr(48 + d + 7 * (d // 10))


def _pct(b: int) -> str:
    return "%" + _hexd(b // 16) + _hexd(b % 16)


def quote_model(s: str, safe: str = "/", encoding=None, errors=None) -> str:
    if (encoding not in (None, "utf-8", "utf8", "UTF-8")) or (errors not in (None, "strict")) or not isinstance(safe, str):
        return _real_quote(s, safe, encoding, errors)      # outside the model: defer to the real function (realises s)
    extra = [ord(x) for x in safe if ord(x) < 128]
    out = ""
    for ch in s:
        c = ord(ch)
        if (65 <= c <= 90) or (97 <= c <= 122) or (48 <= c <= 57) or c == 95 or c == 46 or c == 45 or c == 126:
            out += ch
        elif c < 128 and _in(c, extra):
            out += ch
        elif c < 0x80:
            out += _pct(c)
        elif c < 0x800:
            # arithmetic instead of bit operations (CrossHair realises symbolic ints on >>, &, |)
            out += _pct(192 + c // 64) + _pct(128 + c % 64)
        elif c < 0x10000:
            if 0xD800 <= c <= 0xDFFF:
                raise UnicodeEncodeError("utf-8", ch, 0, 1, "surrogates not allowed")
            out += _pct(224 + c // 4096) + _pct(128 + (c // 64) % 64) + _pct(128 + c % 64)
        else:
            out += _pct(240 + c // 262144) + _pct(128 + (c // 4096) % 64) + _pct(128 + (c // 64) % 64) + _pct(128 + c % 64)
    return out


def _in(c: int, xs) -> bool:
    for x in xs:
        if c == x:
            return True
    return False


def validate() -> None:
    """model == real quote on every single code point class boundary, all ASCII, and pairs from the interesting set"""
    pts = list(range(0, 0x100)) + [0x7FF, 0x800, 0xFFF, 0x1000, 0xD7FF, 0xE000, 0xFFFD, 0xFFFF, 0x10000, 0x10FFFF, 0x2603, 0xE9]
    for c in pts:
        s = chr(c)
        assert quote_model(s) == _real_quote(s), (c, quote_model(s), _real_quote(s))
    hot = " %#?/&'\"<>é☃\U0001F600a~._-\n"
    for a in hot:
        for b in hot:
            assert quote_model(a + b) == _real_quote(a + b), (a, b)
    for sf in ("", "/~", ":/?#", "é"):
        for a in hot:
            assert quote_model(a + "x/", safe=sf) == _real_quote(a + "x/", safe=sf), (a, sf)
    for c in (0xD800, 0xDFFF):
        try:
            _real_quote(chr(c))
            ok = False
        except UnicodeEncodeError:
            ok = True
        assert ok


class patched_quote:
    """with patched_quote(): urllib.parse.quote is the model (restored afterwards)"""

    def __enter__(self):
        self.saved = urllib.parse.quote
        urllib.parse.quote = quote_model
        return self

    def __exit__(self, *a):
        urllib.parse.quote = self.saved
        return False
