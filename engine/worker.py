"""Symbolic execution of one harness shard (run as a subprocess: python -m engine.worker).

Reads a JSON job from stdin, writes one JSON result to stdout (last line, prefixed @@RESULT@@).
For a shard it runs
  main : post = "harness returns True"  -> CONFIRMED / REFUTED(+args) / UNKNOWN
  twin : post = "harness returns False" -> must be REFUTED (reachability / non-vacuity witness)
"""
from __future__ import annotations

import importlib
import inspect
import json
import sys
import time
import traceback
from collections import Counter
from typing import Any, Dict


def _jsonable(v: Any) -> Any:
    if isinstance(v, bool) or v is None:
        return v
    if isinstance(v, int):
        return int(v)
    if isinstance(v, str):
        return str(v)
    if isinstance(v, float):
        return float(v)
    return repr(v)


SEED = [0]


class Z3Meter:
    def __init__(self) -> None:
        self.calls = 0
        self.time = 0.0

    def install(self) -> None:
        import z3

        orig = z3.Solver.check
        meter = self

        def check(self_, *a: Any, **k: Any):
            t = time.perf_counter()
            try:
                return orig(self_, *a, **k)
            finally:
                meter.calls += 1
                meter.time += time.perf_counter() - t

        z3.Solver.check = check  # type: ignore[method-assign]


def analyze(h, tier: str, shard: Dict[str, Any], mode: str, exclude, region, timeout: float, meter: Z3Meter) -> Dict[str, Any]:
    from crosshair.condition_parser import (POSTCONDITION, PRECONDITION, ConditionExpr, Conditions,
                                            condition_parser)
    import crosshair.core_and_libs  # noqa: F401  (loads opcode patches and library models)
    from engine import chpatch

    chpatch.apply()
    from crosshair.core import DEFAULT_OPTIONS, AnalysisOptionSet, analyze_calltree
    from crosshair.fnutil import resolve_signature
    from crosshair.statespace import VerificationStatus

    fn = h.fn
    B = h.B(tier)
    from engine import api

    api.CURRENT.clear()
    api.CURRENT.update(B)
    api.CURRENT["SEED"] = SEED[0]
    full_sig = resolve_signature(fn)
    if isinstance(full_sig, str):
        raise RuntimeError(f"cannot resolve signature of {h.name}: {full_sig}")
    free = [p for n, p in full_sig.parameters.items() if n not in shard]
    sig = full_sig.replace(parameters=free)
    names = [p.name for p in free]
    reached = [0]
    captured: list = []

    def call(*a: Any, **kw: Any):
        kw.update(zip(names, a))
        return fn(**kw, **shard)

    call.__name__ = fn.__name__
    call.__qualname__ = fn.__qualname__
    call.__module__ = fn.__module__

    def pre(b) -> bool:
        args = {k: b[k] for k in names}
        args.update(shard)
        if not h.pre(B, **args):
            return False
        for r in exclude:
            if h.regions[r](**args):
                return False
        if region is not None and not h.regions[region](**args):
            return False
        return True

    def post(b) -> bool:
        reached[0] += 1
        r = b["__return__"]
        return (not r) if mode == "twin" else bool(r)

    def maker(args, ret, overrides):
        d = {k: _jsonable(v) for k, v in args.arguments.items()}
        if "kw" in d and len(d) == 1:
            d = {k: _jsonable(v) for k, v in args.arguments["kw"].items()}
        captured.append(d)
        return (f"{h.name}({d})", repr(ret))

    fname = inspect.getsourcefile(fn) or "<harness>"
    line = fn.__code__.co_firstlineno
    # `call` takes **kw; give CrossHair the reduced explicit signature instead.
    cond = Conditions(
        call, fn,
        [ConditionExpr(PRECONDITION, pre, fname, line, "pre")],
        [ConditionExpr(POSTCONDITION, post, fname, line, "post")],
        frozenset(), sig, None, [], counterexample_description_maker=maker,
    )
    stats: Counter = Counter()
    opts = DEFAULT_OPTIONS.overlay(AnalysisOptionSet(
        per_condition_timeout=timeout, per_path_timeout=max(timeout / 2, 5.0), report_all=True,
        stats=stats, max_uninteresting_iterations=sys.maxsize, max_iterations=sys.maxsize))
    opts.stats = stats
    opts.deadline = time.process_time() + timeout
    z0, zt0 = meter.calls, meter.time
    t0 = time.time()
    with condition_parser(opts.analysis_kind):
        res = analyze_calltree(opts, cond)
    status = res.verification_status
    out: Dict[str, Any] = {
        "mode": mode, "status": status.name if status else "UNKNOWN",
        "paths": int(stats.get("num_paths", 0)), "reached_post": reached[0],
        "z3_checks": meter.calls - z0, "z3_time_s": round(meter.time - zt0, 3),
        "wall_s": round(time.time() - t0, 3),
        "messages": [(m.state.name if hasattr(m.state, "name") else str(m.state), m.message[:500]) for m in res.messages],
    }
    if status == VerificationStatus.REFUTED:
        if captured:
            cex = dict(captured[-1])
            cex.update(shard)
            out["cex"] = cex
        else:
            out["cex"] = None
    return out


def main() -> None:
    job = json.load(sys.stdin)
    sys.setrecursionlimit(10000)
    meter = Z3Meter()
    result: Dict[str, Any] = {"job": {k: job[k] for k in ("key", "shard", "kind")}}
    try:
        meter.install()
        importlib.import_module(job["module"])
        from engine.api import REGISTRY

        h = REGISTRY[job["key"]]
        tier, shard, timeout = job["tier"], job["shard"], float(job["timeout"])
        SEED[0] = int(job.get("seed", 0))
        kind = job["kind"]
        exclude = job.get("exclude", [])
        if kind == "main":
            r = analyze(h, tier, shard, "main", exclude, None, timeout, meter)
            result["main"] = r
            if r["status"] == "CONFIRMED" and h.expect_witness:
                result["twin"] = analyze(h, tier, shard, "twin", exclude, None, min(timeout, 120.0), meter)
        elif kind == "region":
            result["main"] = analyze(h, tier, shard, "main", [], job["region"], timeout, meter)
        else:
            raise RuntimeError(f"unknown job kind {kind}")
    except BaseException as e:  # noqa: BLE001 - report everything to the orchestrator
        result["error"] = f"{type(e).__name__}: {e}\n{traceback.format_exc()[-3000:]}"
    sys.stdout.write("\n@@RESULT@@" + json.dumps(result) + "\n")
    sys.stdout.flush()


if __name__ == "__main__":
    main()
