"""C01 Rendered markup parses back to the same element tree."""
from __future__ import annotations

from html.parser import HTMLParser

from htmltools import MetadataNode, Tag, TagList

from engine.api import conc, concrete, harness, in_alphabet, pick
from oracles.escape import ref_escape_attr, ref_escape_text

VOID16 = ["area", "base", "br", "col", "command", "embed", "hr", "img", "input", "keygen", "link", "meta",
          "param", "source", "track", "wbr"]
_FIRST = "abcdefghijklmnopqrstuvwxyz"
_REST = "abcdefghijklmnopqrstuvwxyz0123456789-"


def _valid_name(n: str) -> bool:
    if len(n) == 0 or n[0] not in _FIRST:
        return False
    return in_alphabet(n[1:], _REST)


def _is_void(n: str) -> bool:
    # the 16 void names, spelled out (not read from the implementation)
    return n == "area" or n == "base" or n == "br" or n == "col" or n == "command" or n == "embed" or n == "hr" \
        or n == "img" or n == "input" or n == "keygen" or n == "link" or n == "meta" or n == "param" \
        or n == "source" or n == "track" or n == "wbr"


@harness("C01", pre=lambda B, n, form, ws: len(n) <= B["L"] and _valid_name(n) and 0 <= form <= 2 and 0 <= ws <= 1 and n != "script" and n != "style",
         bounds={"quick": {"L": 7}, "thorough": {"L": 8}},
         shard={"form": range(3), "ws": range(2)},
         sym=["n: tag name, every string over [a-z][a-z0-9-]* up to L characters (all catalogue names of that length, all 16 void names, all custom names)"],
         sel=["form: childless / one text child / metadata child only", "ws: whitespace flag"],
         targets=["htmltools._core.Tag.get_html_string"],
         timeout={"quick": 300, "thorough": 2400},
         outside="names longer than L; names that are not syntactically valid; script/style (raw text elements, C04)")
def h_name_form(n: str, form: int, ws: int) -> bool:
    """every element is closed by its own end tag or, for a childless void element, written as one self-closed tag"""
    w = ws == 1
    if form == 0:
        out = Tag(n, _add_ws=w).get_html_string()
    elif form == 2:
        out = Tag(n, MetadataNode(), _add_ws=w).get_html_string()
    else:
        return Tag(n, "t", _add_ws=w).get_html_string() == "<" + n + ">t</" + n + ">"
    if _is_void(n):
        return out == "<" + n + "/>"
    return out == "<" + n + "></" + n + ">"


_AN1 = "az"
_AN2 = ["", "a", "0", "-"]


_HOSTILE = ["", "v", '"', "'>", "a\nb", "&amp;<"]


def _attr_case(na, nb, nc, v):
    w, x = "<'", "\n&"
    t = Tag("p", {na: v}, {nb: w}, **{nc: x})
    names, vals = [], {}
    for nm, val in ((na, v), (nb, w), (nc, x)):
        if nm in vals:
            vals[nm] = vals[nm] + " " + val
        else:
            names.append(nm)
            vals[nm] = val
    want = "<p"
    for nm in names:
        want += " " + nm + '="' + ref_escape_attr(vals[nm]) + '"'
    return t.get_html_string() == want + "></p>"


@harness("C01", pre=lambda B, a0, a1, bsel, csel, vi: 0 <= a0 <= 1 and 0 <= a1 <= 3 and 0 <= bsel <= 3 and 0 <= csel <= 1 and 0 <= vi < len(_HOSTILE),
         shard={"a0": range(2)},
         sel=["a0, a1: first attribute name over [az][a0-]?", "bsel, csel: second / third name (coinciding with the first or distinct)", "vi: value from a hostile catalogue"],
         targets=["htmltools._core.Tag.get_html_string", "htmltools._core.TagAttrDict.update"])
def h_attr_syntax(a0: int, a1: int, bsel: int, csel: int, vi: int) -> bool:
    """same attribute names in insertion order, each once, as name="value" with the value escaped so that it decodes to the stored value"""
    na = pick(a0, _AN1) + pick(a1, _AN2)
    nb = pick(bsel, [na, "z", "a0", "z-"])
    nc = pick(csel, [na, "k"])
    return concrete(_attr_case, na, nb, nc, pick(vi, _HOSTILE))


@harness("C01", pre=lambda B, case, v: 0 <= case <= 2 and len(v) <= B["L"], bounds={"quick": {"L": 1}, "thorough": {"L": 2}},
         shard={"case": range(3)},
         sym=["v: attribute value, str over all code points, len <= L"], sel=["case: three distinct names / second coincides / third coincides"],
         targets=["htmltools._core.Tag.get_html_string"], timeout={"quick": 300, "thorough": 1500})
def h_attr_value_sym(case: int, v: str) -> bool:
    if case == 0:
        return _attr_case("a", "z-", "k", v)
    if case == 1:
        return _attr_case("a0", "a0", "k", v)
    return _attr_case("z", "a", "z", v)


# ---------------------------------------------------------------------------
# tokenizer round trip on concrete trees

_TEXTS = ['say "hi"', "a<b", "x & y", "</div>", "<!--", "&amp;", " s ", "l1\nl2", 7, 1.5]
_ATTRS = [[], [("id", 'say "hi"')], [("class", "a b"), ("title", 'q"<>&\'\n')], [("data-x", ""), ("hidden", True), ("y", 3)]]
_BLOCK = ["div", "p", "section", "blockquote", "table", "figcaption"]
_INLINE = ["span", "a", "b", "em", "textarea", "sub"]


class _Tok(HTMLParser):
    def __init__(self):
        super().__init__(convert_charrefs=True)
        self.ev = []

    def handle_starttag(self, tag, attrs):
        self.ev.append(("start", tag, attrs))

    def handle_startendtag(self, tag, attrs):
        self.ev.append(("startend", tag, attrs))

    def handle_endtag(self, tag):
        self.ev.append(("end", tag))

    def handle_data(self, data):
        if self.ev and self.ev[-1][0] == "data":
            self.ev[-1] = ("data", self.ev[-1][1] + data)
        else:
            self.ev.append(("data", data))

    def handle_comment(self, data):
        self.ev.append(("comment", data))

    def handle_decl(self, decl):
        self.ev.append(("decl", decl))

    def handle_pi(self, data):
        self.ev.append(("pi", data))


def _norm(events):
    out = []
    for e in events:
        if e[0] == "data":
            s = e[1].strip()
            if s == "":
                continue
            if out and out[-1][0] == "data":
                out[-1] = ("data", (out[-1][1] + e[1]))
                continue
            out.append(("data", e[1]))
        else:
            out.append(e)
    return [("data", e[1].strip()) if e[0] == "data" else e for e in out]


def _attr_events(attrs):
    """stored attributes -> what a tokenizer must report: same names, insertion order, values decoding to the stored values"""
    out = []
    for k, v in attrs:
        if v is True:
            out.append((k, ""))
        elif v is False or v is None:
            continue
        else:
            out.append((k, str(v)))
    return out


def _expected(node, ev):
    kind = node[0]
    if kind == "text":
        ev.append(("data", str(node[1])))
    elif kind == "meta":
        pass
    else:
        _, name, attrs, kids = node
        vis = [k for k in kids if k[0] != "meta"]
        if len(vis) == 0 and name in VOID16:
            ev.append(("startend", name, _attr_events(attrs)))
            return
        ev.append(("start", name, _attr_events(attrs)))
        for k in kids:
            _expected(k, ev)
        ev.append(("end", name))


def _mk(node):
    if node[0] == "text":
        return node[1]
    if node[0] == "meta":
        return MetadataNode()
    _, name, attrs, kids = node
    return Tag(name, dict(attrs), *[_mk(k) for k in kids], _add_ws=(name in _BLOCK or name in ("hr", "link", "meta", "base", "col", "area", "param", "source", "track", "command", "keygen")))


def _node(kind: int, i: int, sub: int, seed: int):
    """kind: 0 absent, 1 text, 2 number text, 3 void leaf, 4 block el, 5 inline el, 6 metadata, 7 void with a child"""
    if kind == 0:
        return None
    if kind == 1:
        return ("text", _TEXTS[(i + sub + seed) % 8])
    if kind == 2:
        return ("text", _TEXTS[8 + (i + sub) % 2])
    if kind == 3:
        return ("el", VOID16[(sub * 5 + i * 3 + seed) % 16], _ATTRS[(sub + i) % 4], [])
    if kind == 6:
        return ("meta",)
    if kind == 7:
        return ("el", VOID16[(sub + seed) % 16], [], [("text", "in-void")])
    names = _BLOCK if kind == 4 else _INLINE
    name = names[(sub + i + seed) % 6]
    attrs = _ATTRS[(sub + 2 * i) % 4]
    pat = sub % 6
    if pat == 0:
        kids = []
    elif pat == 1:
        kids = [("text", _TEXTS[(i + seed) % 8])]
    elif pat == 2:
        kids = [("text", "u<v"), ("el", _INLINE[(i + 1) % 6], [], [("text", "w&")]), ("text", 7)]
    elif pat == 3:
        kids = [("meta",), ("el", VOID16[(i + seed) % 16], [], []), ("text", "tail")]
    elif pat == 4:
        kids = [("el", _BLOCK[(i + 2) % 6], [("id", "n")], [("text", "deep"), ("el", "br", [], [])]), ("text", "after")] if kind == 4 else \
               [("el", _INLINE[(i + 2) % 6], [("id", "n")], [("text", "deep"), ("el", "br", [], [])]), ("text", "after")]
    else:
        kids = [("text", "a"), ("text", "<b>"), ("meta",), ("text", "&c")]
    return ("el", name, attrs, kids)


N_KIND = 8
N_SUB = 6
_PAIRS = [(0, "\n"), (1, "\r\n"), (0, ""), (3, "\n")]


def _pre_tree(B, root, k0, s0, k1, s1, k2, s2, pr):
    for k in (k0, k1, k2):
        if not (0 <= k < N_KIND):
            return False
    for s in (s0, s1, s2):
        if not (0 <= s < N_SUB):
            return False
    if not B["THREE"] and not (k2 == 0 and s2 == 0):
        return False
    if B["THREE"] and not (s2 in (0, 2, 4) and pr in (0, 1, 3)):
        return False       # third slot: half of the sub-patterns, three of the four (indent, eol) pairs (keeps a shard under its budget)
    return 0 <= root <= 2 and 0 <= pr <= 3


@harness("C01", pre=_pre_tree, bounds={"quick": {"THREE": False}, "thorough": {"THREE": True}},
         shard={"root": range(3), "k0": range(N_KIND)},
         sel=["root: block / inline / top-level list", "k*, s*: child kind (text with metacharacters, number, void leaf over all 16 names, block/inline element, metadata, void with child) and sub-pattern (attributes, grandchildren to depth 3)",
              "pr: (indent, eol)"],
         targets=["htmltools._core.Tag.get_html_string", "htmltools._core.TagList.get_html_string"],
         stubs=["tokenizer oracle: html.parser.HTMLParser (stdlib) run on the concrete output of each path"],
         timeout={"quick": 300, "thorough": 2400},
         outside="the tokenizer sees concrete (catalogue) text and attribute values; arbitrary text is covered by C02/C03 kernels and h_name_form/h_attr_syntax")
def h_tree_parse(root: int, k0: int, s0: int, k1: int, s1: int, k2: int, s2: int, pr: int) -> bool:
    """the rendered string tokenizes as HTML into exactly the tree's elements, attributes and text runs"""
    from engine import api
    seed = int(api.CURRENT.get("SEED", 0))
    return concrete(_tree_body, conc(root, 0, 2), conc(k0, 0, N_KIND - 1), conc(s0, 0, N_SUB - 1), conc(k1, 0, N_KIND - 1),
                    conc(s1, 0, N_SUB - 1), conc(k2, 0, N_KIND - 1), conc(s2, 0, N_SUB - 1), conc(pr, 0, 3), seed)


def _tree_body(root, k0, s0, k1, s1, k2, s2, pr, seed) -> bool:
    kids = [n for n in (_node(k0, 0, s0, seed), _node(k1, 1, s1, seed), _node(k2, 2, s2, seed)) if n is not None]
    indent, eol = _PAIRS[pr]
    want = []
    if root == 2:
        out = TagList(*[_mk(k) for k in kids]).get_html_string(indent, eol)
        for k in kids:
            _expected(k, want)
    else:
        top = ("el", "div" if root == 0 else "span", [("id", "root")], kids)
        out = _mk(top).get_html_string(indent, eol)
        _expected(top, want)
    tok = _Tok()
    tok.feed(out)
    tok.close()
    return _norm(tok.ev) == _norm(want)
