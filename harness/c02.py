"""C02 Plain-text children are inert data."""
from __future__ import annotations

import htmltools
from htmltools import HTML, HTMLDocument, Tag, TagList, html_escape
from htmltools import _util

from engine.api import conc, concrete, harness, in_alphabet
from oracles.escape import ref_escape_text
from oracles.util import MARK, TF, subst


def _cls0(B, c0, s):
    if len(s) > B["L"]:
        return False
    if c0 == 0:
        return len(s) == 0
    if len(s) == 0:
        return False
    f = s[0]
    k = 1 if f == "&" else (2 if f == "<" else (3 if f == ">" else 4))
    return k == c0


@harness("C02", pre=_cls0,
         bounds={"quick": {"L": 4}, "thorough": {"L": 6}},
         shard={"c0": range(5)},
         sym=["s: str over all code points, len <= L (sharded by the class of its first character)"],
         targets=["htmltools._util.html_escape"],
         timeout={"quick": 300, "thorough": 3000},
         outside="strings longer than L")
def k_escape_text(c0: int, s: str) -> bool:
    """exported html_escape == per-character reference (3 references, everything else unchanged)."""
    if htmltools.html_escape is not _util.html_escape:
        return False
    return html_escape(s) == ref_escape_text(s) and html_escape(s, attr=False) == ref_escape_text(s)


@harness("C02", pre=lambda B, s: len(s) <= B["L"],
         bounds={"quick": {"L": 3}, "thorough": {"L": 4}},
         sym=["s: str over all code points, len <= L"],
         targets=["htmltools._util.html_escape"],
         timeout={"quick": 150, "thorough": 1500})
def k_inert(s: str) -> bool:
    """The escaped text cannot open/close a tag or forge a reference, and decodes to s."""
    e = html_escape(s)
    i = 0
    dec = ""
    n = len(e)
    while i < n:
        c = e[i]
        if c == "<" or c == ">":
            return False
        if c == "&":
            if e[i:i + 5] == "&amp;":
                dec += "&"
                i += 5
            elif e[i:i + 4] == "&lt;":
                dec += "<"
                i += 4
            elif e[i:i + 4] == "&gt;":
                dec += ">"
                i += 4
            else:
                return False
        else:
            dec += c
            i += 1
    return dec == s


N_HOW = 20


class SubStr(str):
    """a str subclass is still a plain string"""



def build_emit(how: int, s):
    """One of the ways a plain string reaches the output; returns the rendered html."""
    if how == 0:
        return Tag("div", s).get_html_string()
    if how == 1:
        return Tag("div", s, Tag("span", "x", _add_ws=False)).get_html_string()
    if how == 2:
        return Tag("div", Tag("span", _add_ws=False), s, Tag("b", _add_ws=False)).get_html_string()
    if how == 3:
        return Tag("div", Tag("span", _add_ws=False), s).get_html_string()
    if how == 4:
        return Tag("div", Tag("p", "x"), s).get_html_string(1, "\r\n")
    if how == 5:
        return TagList(s, Tag("p")).get_html_string()
    if how == 6:
        return Tag("div", [("a", [s])], "z").get_html_string()
    if how == 7:
        t = Tag("div", "a")
        t.append(s)
        return t.get_html_string()
    if how == 8:
        t = Tag("div", Tag("p"))
        t.extend([s])
        return t.get_html_string()
    if how == 9:
        t = Tag("div", "a", "b")
        t.insert(1, s)
        return t.get_html_string()
    if how == 10:
        return Tag("div", TF(s), "x").render()["html"]
    if how == 11:
        return Tag("span", s, Tag("b", _add_ws=False), _add_ws=False).get_html_string()
    if how == 12:
        return str(Tag("div", TF(TagList(s, Tag("p", s)))))
    if how == 13:
        return str(TagList(s))
    if how == 14:
        return HTMLDocument(Tag("div", Tag("p"), s)).render()["html"]
    if how == 16:
        t = Tag("script", s)          # what counts is the element's name when it is rendered: renamed, it is an ordinary element
        t.name = "pre"
        return t.get_html_string()
    if how == 17:
        t = Tag("style", "a{}", _add_ws=False)
        t.name = "code"
        t.append(s)
        return Tag("div", t).get_html_string()
    if how == 18:
        t = Tag("script")
        t.name = "span"
        t.add_ws = False
        t.extend([s, Tag("b", _add_ws=False)])
        return Tag("div", "k", t).render()["html"]
    if how == 19:
        import copy
        t = Tag("style", s)
        t.name = "p"
        return copy.copy(t).tagify().get_html_string()
    tl = TagList("a")
    tl += [s]
    return (tl + s + [s]).get_html_string()


@harness("C02", pre=lambda B, how, s: 0 <= how < N_HOW and len(s) <= B["L"],
         bounds={"quick": {"L": 2}, "thorough": {"L": 3}},
         shard={"how": range(N_HOW)},
         sym=["s: str over all code points, len <= L"], sel=["how: 20 ways a string child reaches the output (16-19: an element constructed as script/style and renamed to an ordinary name before rendering)"],
         targets=["htmltools._core.Tag.get_html_string", "htmltools._core.TagList.get_html_string",
                  "htmltools._core._normalize_text", "htmltools._core._tagchilds_to_tagnodes"],
         timeout={"quick": 150, "thorough": 900},
         outside="tree shapes other than the 20 listed emission paths (layout itself is C05/C06)")
def h_emit_paths(how: int, s: str) -> bool:
    """render(T[s]) == render(T[MARK]) with MARK replaced by the reference escaping of s."""
    return build_emit(how, s) == subst(build_emit(how, MARK), MARK, ref_escape_text(s))


@harness("C02", pre=lambda B, how, n: 0 <= how <= 2 and -B["N"] <= n <= B["N"],
         bounds={"quick": {"N": 10 ** 6}, "thorough": {"N": 10 ** 12}},
         sym=["n: int in [-N, N]"], sel=["how: only child / sibling / float catalogue"],
         targets=["htmltools._core._tagchilds_to_tagnodes"])
def h_numbers(how: int, n: int) -> bool:
    """numbers render as their str() text."""
    if how == 0:
        return Tag("div", n).get_html_string() == "<div>" + str(n) + "</div>"
    if how == 1:
        return TagList(n, [n]).get_html_string() == str(n) + str(n)
    for f in (1.5, -0.0, 1e-05, float("inf"), float("nan"), 1e22):
        if Tag("i", f).get_html_string() != "<i>" + str(f) + "</i>":
            return False
    # str subclasses are plain strings too
    from htmltools._jsx import jsx
    return Tag("i", SubStr("a<b")).get_html_string() == "<i>a&lt;b</i>" and Tag("i", "x", jsx("1<2")).get_html_string() == "<i>\n  x1&lt;2\n</i>"


_LONG = ["<b>&", "x" * 63 + "<", "y" * 64 + "&<>", ("ab<&>" * 13), "z" * 200 + "</div><script>", "é☃ & " * 40, "<" * 1100]


def _hist_body(sv: int, order: int) -> bool:
    s = _LONG[sv]
    want = ref_escape_text(s)
    txt = lambda: Tag("div", s, Tag("i")).get_html_string() == "<div>\n  " + want + "\n  <i></i>\n</div>"        # noqa: E731
    one = lambda: Tag("p", s).get_html_string() == "<p>" + want + "</p>"                                          # noqa: E731
    raw = lambda: Tag("div", HTML(s), Tag("i")).get_html_string() == "<div>\n  " + s + "\n  <i></i>\n</div>"      # noqa: E731
    raw1 = lambda: Tag("p", HTML(s)).get_html_string() == "<p>" + s + "</p>"                                      # noqa: E731
    att = lambda: 'title="' in Tag("p", title=s).get_html_string()                                               # noqa: E731
    seqs = [[raw, txt, one], [raw1, one, txt, raw], [txt, raw, txt], [att, one, raw1, one], [one, one, raw1, raw1, one]]
    for step in seqs[order]:
        if not step():
            return False
    return html_escape(s) == want


@harness("C02", pre=lambda B, sv, order: 0 <= sv < len(_LONG) and 0 <= order <= 4,
         shard={"sv": range(len(_LONG))},
         sel=["sv: strings of 4 to 1100 characters with metacharacters (lengths around 64, non-ASCII)",
              "order: the same characters rendered as HTML() before/after/between renderings as plain text, as an attribute first, repeated"],
         targets=["htmltools._core._normalize_text", "htmltools._util.html_escape"],
         outside="strings are catalogue values: this harness targets state carried between renderings (caches keyed by text), which a bound of 3 symbolic characters cannot reach")
def h_emit_history(sv: int, order: int) -> bool:
    """the escaped form of a plain string does not depend on what was rendered before (the same text as HTML(), as an attribute, repeatedly)"""
    return concrete(_hist_body, conc(sv, 0, len(_LONG) - 1), conc(order, 0, 4))


_FIRST = "abcdefghijklmnopqrstuvwxyz"
_REST = "abcdefghijklmnopqrstuvwxyz0123456789-"


def _valid_name(n: str) -> bool:
    if len(n) == 0 or n[0] not in _FIRST:
        return False
    return in_alphabet(n[1:], _REST)


@harness("C02", pre=lambda B, n, how: len(n) <= B["L"] and _valid_name(n) and n != "script" and n != "style" and 0 <= how <= 1,
         bounds={"quick": {"L": 7}, "thorough": {"L": 8}},
         shard={"how": range(2)},
         sym=["n: element name, every string over [a-z][a-z0-9-]* up to L characters except exactly 'script' and 'style'"],
         sel=["how: single text child / several children"],
         targets=["htmltools._core.Tag.get_html_string"], timeout={"quick": 300, "thorough": 2400},
         outside="names longer than L")
def h_escape_any_element(n: str, how: int) -> bool:
    """text is escaped under every ordinary element name (only the names 'script' and 'style' themselves are raw-text elements)"""
    if how == 0:
        return Tag(n, "a<b&c>").get_html_string() == "<" + n + ">a&lt;b&amp;c&gt;</" + n + ">"
    return Tag(n, "x<", "&y", _add_ws=False).get_html_string() == "<" + n + ">x&lt;&amp;y</" + n + ">"
