"""C02 Plain-text children are inert data."""
from __future__ import annotations

import htmltools
from htmltools import HTML, Tag, TagList, html_escape
from htmltools import _util

from engine.api import harness, pick
from oracles.escape import ref_escape_text


@harness("C02", pre=lambda B, s: len(s) <= B["L"],
         bounds={"quick": {"L": 3}, "thorough": {"L": 5}},
         sym=["s: str over all code points, len <= L"],
         targets=["htmltools._util.html_escape"],
         outside="strings longer than L")
def k_escape_text(s: str) -> bool:
    if htmltools.html_escape is not _util.html_escape:
        return False
    return html_escape(s) == ref_escape_text(s) and html_escape(s, attr=False) == ref_escape_text(s)
