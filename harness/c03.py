"""C03 Attribute values are inert, single-line, and decode to the original."""
from __future__ import annotations

from htmltools import HTML, Tag, html_escape

from engine.api import harness
from oracles.escape import ATTR_REF, ref_escape_attr

_META = "&<>\"'\r\n"


def _cls(c: str) -> int:
    """class of a character: 1..7 = the seven attribute metacharacters, 8 = anything else"""
    if c == "&":
        return 1
    if c == "<":
        return 2
    if c == ">":
        return 3
    if c == '"':
        return 4
    if c == "'":
        return 5
    if c == "\r":
        return 6
    if c == "\n":
        return 7
    return 8


def _pre_k(B, c0, s):
    if len(s) > B["L"]:
        return False
    if c0 == 0:
        return len(s) == 0
    return len(s) > 0 and _cls(s[0]) == c0


@harness("C03", pre=_pre_k,
         bounds={"quick": {"L": 3}, "thorough": {"L": 4}},
         shard={"c0": range(9)},
         sym=["s: str over all code points, len <= L (sharded by the class of its first character)"],
         targets=["htmltools._util.html_escape"],
         timeout={"quick": 200, "thorough": 2400},
         outside="strings longer than L")
def k_escape_attr(c0: int, s: str) -> bool:
    """html_escape(s, attr=True) == per-character reference (7 references, everything else unchanged)."""
    return html_escape(s, attr=True) == ref_escape_attr(s)


N_SUPPLY = 16


def _v(kind: int, x: str):
    return HTML(x) if kind == 1 else x


def _e(kind: int, x: str) -> str:
    return x if kind == 1 else ref_escape_attr(x)


def supply(how: int, ka: int, kb: int, a: str, b: str):
    """Returns (rendered, expected value inside the quotes, attribute name)."""
    A, Bv = _v(ka, a), _v(kb, b)
    ea, eb = _e(ka, a), _e(kb, b)
    if how == 0:
        return Tag("i", title=A), ea, "title"
    if how == 1:
        return Tag("i", {"title": A}), ea, "title"
    if how == 2:
        return Tag("i", {"title": A}, title=Bv), ea + " " + eb, "title"
    if how == 3:
        return Tag("i", {"title": A}, {"title": "m"}, title=Bv), ea + " m " + eb, "title"
    if how == 4:
        t = Tag("i", title="z")
        t.attrs.update({"title": A}, title=Bv)
        return t, ea + " " + eb, "title"
    if how == 5:
        t = Tag("i", title="z")
        t.attrs["title"] = A
        return t, ea, "title"
    if how == 6:
        return Tag("i", class_=A).add_class(Bv), ea + " " + eb, "class"
    if how == 7:
        return Tag("i", class_=A).add_class(Bv, prepend=True), eb + " " + ea, "class"
    if how == 8:
        return Tag("i", style=A).add_style(Bv + ";" if kb == 0 else HTML(b + ";")), ea + " " + eb + ";", "style"
    if how == 9:
        return Tag("i", style=A).add_style(Bv + ";" if kb == 0 else HTML(b + ";"), prepend=True), eb + "; " + ea, "style"
    if how == 10:
        return Tag("i").add_class(A), ea, "class"
    if how == 11:
        t = Tag("i", {"title": A})
        t.attrs.update(title=Bv)   # a later update replaces
        return t, eb, "title"
    if how == 12:
        t = Tag("i", {"data_x": A}, data_x=Bv)
        return t, ea + " " + eb, "data-x"
    if how == 13:
        # one mapping holding two spellings of the same attribute name
        return Tag("i", {"data_x": A, "data-x": Bv}), ea + " " + eb, "data-x"
    if how == 14:
        return Tag("i", **{"class_": A, "class": Bv}), ea + " " + eb, "class"
    t = Tag("i")
    t.attrs.update({"title_": A, "title": Bv})
    return t, ea + " " + eb, "title"


_SINGLE = (0, 1, 5, 10)   # paths that use operand a only: cheaper, so a longer bound (L1)


def _pre_supply(B, how, ka, kb, a, b):
    if not (0 <= how < N_SUPPLY and 0 <= ka <= 1 and 0 <= kb <= 1):
        return False
    if how in _SINGLE:
        return kb == 0 and len(b) == 0 and len(a) <= B["L1"]
    if ka == 0 and kb == 0:
        return len(a) <= B["L"] and len(b) <= B["LB"]      # both plain: the merged string is escaped as a whole (expensive)
    return len(a) <= B["L"] and len(b) <= B["L"]


@harness("C03",
         pre=_pre_supply,
         bounds={"quick": {"L": 1, "L1": 2, "LB": 1}, "thorough": {"L": 2, "L1": 3, "LB": 1}},
         shard=lambda B: [{"how": h, "ka": ka, "kb": kb} for h in range(N_SUPPLY) for ka in range(2) for kb in range(2)
                          if not (h in _SINGLE and kb == 1)],
         sym=["a, b: str over all code points, len <= L (len(a) <= L1 on the single-operand paths)"],
         sel=["how: 16 ways of supplying/merging a value (incl. one mapping with two spellings of a name)", "ka, kb: plain or HTML() per operand"],
         targets=["htmltools._core.TagAttrDict.update", "htmltools._core.Tag.get_html_string", "htmltools._core.Tag.add_class",
                  "htmltools._core.Tag.add_style", "htmltools._core.TagAttrDict.__setitem__"],
         timeout={"quick": 150, "thorough": 1200})
def h_attr_supply(how: int, ka: int, kb: int, a: str, b: str) -> bool:
    """Inside the quotes: plain operands attribute-escaped exactly once, HTML() operands verbatim,
    joined by single spaces in argument order."""
    t, exp, nm = supply(how, ka, kb, a, b)
    return t.get_html_string() == "<i " + nm + '="' + exp + '"></i>'


@harness("C03", pre=lambda B, k, n: 0 <= k <= 5 and -B["N"] <= n <= B["N"],
         bounds={"quick": {"N": 10 ** 6}, "thorough": {"N": 10 ** 12}},
         sym=["n: int in [-N, N]"], sel=["k: True / False / None / int / float catalogue / mixed"],
         targets=["htmltools._core.TagAttrDict._normalize_attr_value"])
def h_attr_kinds(k: int, n: int) -> bool:
    if k == 0:
        return Tag("i", hidden=True).get_html_string() == '<i hidden=""></i>'
    if k == 1:
        return Tag("i", hidden=False, x="1").get_html_string() == '<i x="1"></i>'
    if k == 2:
        return Tag("i", {"hidden": None}, x="1").get_html_string() == '<i x="1"></i>'
    if k == 3:
        return Tag("i", tabindex=n).get_html_string() == '<i tabindex="' + str(n) + '"></i>'
    if k == 4:
        for f in (1.5, -0.0, 1e-05, float("inf"), float("nan")):
            if Tag("i", v=f).get_html_string() != '<i v="' + str(f) + '"></i>':
                return False
        return True
    return Tag("i", {"a": None, "b": n}, a=True, b=False, c=None).get_html_string() == '<i b="' + str(n) + '" a=""></i>'


@harness("C03", pre=lambda B, pos, kind, s: 0 <= pos <= 2 and 0 <= kind <= 1 and len(s) <= B["L"],
         bounds={"quick": {"L": 2}, "thorough": {"L": 3}},
         shard={"pos": range(3), "kind": range(2)},
         sym=["s: str over all code points, len <= L"], sel=["pos: which of three attributes carries s", "kind: plain / HTML()"],
         targets=["htmltools._core.Tag.get_html_string"],
         timeout={"quick": 150, "thorough": 1200})
def h_attr_position(pos: int, kind: int, s: str) -> bool:
    """Every attribute position is escaped, with hostile neighbours; children unaffected."""
    vals = ['"><', "'\n", "&"]
    exp = ["&quot;&gt;&lt;", "&apos;&#10;", "&amp;"]
    d = {}
    for i in range(3):
        if i == pos:
            d["a" + str(i)] = _v(kind, s)
            exp[i] = _e(kind, s)
        else:
            d["a" + str(i)] = vals[i]
    out = Tag("p", d, "t", Tag("br")).get_html_string()
    want = '<p a0="' + exp[0] + '" a1="' + exp[1] + '" a2="' + exp[2] + '">\n  t\n  <br/>\n</p>'
    return out == want


@harness("C03", pre=lambda B, order, s: 0 <= order <= 3 and len(s) <= B["L"], bounds={"quick": {"L": 2}, "thorough": {"L": 3}},
         shard={"order": range(4)},
         sym=["s: str over all code points, len <= L"],
         sel=["order: the same string escaped as text then as attribute value, the reverse, as sibling text and attribute in one tree, in two renders"],
         targets=["htmltools._util.html_escape", "htmltools._core.Tag.get_html_string"],
         timeout={"quick": 200, "thorough": 1500})
def k_escape_order(order: int, s: str) -> bool:
    """escaping is a function of (text, table) only: escaping the same string under the other table earlier in the process changes nothing"""
    from oracles.escape import ref_escape_text
    et, ea = ref_escape_text(s), ref_escape_attr(s)
    if order == 0:
        return html_escape(s) == et and html_escape(s, attr=True) == ea and html_escape(s) == et
    if order == 1:
        return html_escape(s, attr=True) == ea and html_escape(s) == et and html_escape(s, attr=True) == ea
    if order == 2:
        out = Tag("div", s, Tag("span", title=s, _add_ws=False)).get_html_string()
        return out == "<div>\n  " + et + '<span title="' + ea + '"></span>\n</div>'
    a = Tag("p", s).get_html_string()
    b = Tag("i", title=s).get_html_string()
    return a == "<p>" + et + "</p>" and b == '<i title="' + ea + '"></i>'
