"""C04 Trusted markup is emitted verbatim and escaping happens exactly once."""
from __future__ import annotations

from htmltools import HTML, HTMLDocument, Tag, TagList

from engine.api import harness
from oracles.escape import ref_escape_text
from oracles.util import MARK, RH, subst

N_SHAPE = 12


def concat(shape: int, a: str, b: str, h: str, g: str):
    """Returns (result, operands as separate children, expected markup)."""
    H, G = HTML(h), HTML(g)
    ea, eb = ref_escape_text(a), ref_escape_text(b)
    if shape == 0:
        return (a + H) + b, [a, H, b], ea + h + eb
    if shape == 1:
        return a + (H + b), [a, H, b], ea + h + eb
    if shape == 2:
        return (H + a) + G, [H, a, G], h + ea + g
    if shape == 3:
        return H + (a + G), [H, a, G], h + ea + g
    if shape == 4:
        x = H
        x += a
        x += b
        return x, [H, a, b], h + ea + eb
    if shape == 5:
        x = a
        x += H
        x += b
        return x, [a, H, b], ea + h + eb
    if shape == 6:
        return H + 5, [H, "5"], h + "5"
    if shape == 7:
        return 5 + H, ["5", H], "5" + h
    if shape == 8:
        return (a + b) + H, [a, b, H], ea + eb + h
    if shape == 9:
        return H + G + H, [H, G, H], h + g + h
    if shape == 10:
        return (a + H) + ("<&" + G), [a, H, "<&", G], ea + h + "&lt;&amp;" + g
    x = G
    x += H + a
    return x, [G, H, a], g + h + ea


@harness("C04",
         pre=lambda B, shape, a, b, h, g: 0 <= shape < N_SHAPE and len(a) <= B["L"] and len(b) <= B["L"] and len(h) <= B["L"] and len(g) <= B["L"],
         bounds={"quick": {"L": 1}, "thorough": {"L": 2}},
         shard={"shape": range(N_SHAPE)},
         sym=["a, b (plain), h, g (HTML payloads): str over all code points, len <= L"],
         sel=["shape: 12 groupings of + / += / reflected + between str, HTML and int"],
         targets=["htmltools._core.HTML.__add__", "htmltools._core.HTML.__radd__"],
         timeout={"quick": 400, "thorough": 3000},
         outside="UserString methods other than + that rebuild the object (%, format, join ...)")
def k_concat(shape: int, a: str, b: str, h: str, g: str) -> bool:
    r, ops, exp = concat(shape, a, b, h, g)
    return isinstance(r, HTML) and r.as_string() == exp


@harness("C04",
         pre=lambda B, shape, a, h: 0 <= shape < N_SHAPE and len(a) <= B["L"] and len(h) <= B["L"],
         bounds={"quick": {"L": 1}, "thorough": {"L": 2}},
         shard={"shape": range(N_SHAPE)},
         sym=["a (plain), h (HTML payload): str over all code points, len <= L; the other operands are the hostile constants '<&' and '&lt;<'"],
         sel=["shape"],
         targets=["htmltools._core.HTML.__add__", "htmltools._core.HTML.__radd__", "htmltools._core.TagList.get_html_string"],
         timeout={"quick": 200, "thorough": 1500})
def k_concat_render(shape: int, a: str, h: str) -> bool:
    """Rendering the concatenation as a child == rendering the operands as separate adjacent children."""
    r, ops, exp = concat(shape, a, "<&", h, "&lt;<")
    return TagList(r, "x").get_html_string() == TagList(*ops, "x").get_html_string() \
        and Tag("i", r).get_html_string() == "<i>" + exp + "</i>"


N_CARRIER = 4
N_POS = 11


def _carrier(c: int, x: str):
    if c == 0:
        return HTML(x)
    if c == 1:
        return RH(x)
    if c == 2:
        return Tag("script", x)
    return Tag("style", x, _add_ws=False)


def place(c: int, pos: int, x: str) -> str:
    v = _carrier(c, x)
    if pos == 0:
        return Tag("div", v).get_html_string()
    if pos == 1:
        return Tag("div", v, Tag("span", "<", _add_ws=False)).get_html_string()
    if pos == 2:
        return Tag("div", "&", v, Tag("p")).get_html_string(2, "\r\n")
    if pos == 3:
        return Tag("div", Tag("p"), v).get_html_string()
    if pos == 4:
        return Tag("div", Tag("span", "a", v, _add_ws=False)).get_html_string()
    if pos == 5:
        return TagList(v, "t", v).get_html_string()
    if pos == 6:
        return str(Tag("div", v, v))
    if pos == 7:
        return HTMLDocument(v, Tag("p", v)).render()["html"]
    if pos == 8:
        return Tag("span", v, _add_ws=False).render()["html"]
    if pos == 9:
        t = Tag("div")
        t.append(v)
        t.insert(0, v)
        return t.get_html_string()
    # attribute value (HTML only; other carriers: nested twice)
    if c == 0:
        return Tag("a", "t", href=v, title="<").get_html_string()
    return Tag("div", Tag("div", v), v).get_html_string()


@harness("C04", pre=lambda B, c, pos, h: 0 <= c < N_CARRIER and 0 <= pos < N_POS and len(h) <= B["L"],
         bounds={"quick": {"L": 2}, "thorough": {"L": 3}},
         shard={"c": range(N_CARRIER), "pos": range(N_POS)},
         sym=["h: trusted markup, str over all code points, len <= L"],
         sel=["c: HTML() / _repr_html_ object / text in <script> / text in <style>", "pos: 11 positions and rendering paths"],
         targets=["htmltools._core._normalize_text", "htmltools._core.TagList.get_html_string", "htmltools._core.Tag.get_html_string"],
         timeout={"quick": 150, "thorough": 900})
def h_verbatim(c: int, pos: int, h: str) -> bool:
    """Trusted content appears byte-for-byte wherever the same tree shows a marker."""
    return place(c, pos, h) == subst(place(c, pos, MARK), MARK, h)


@harness("C04", pre=lambda B, k, h: 0 <= k <= 7 and len(h) <= B["L"],
         bounds={"quick": {"L": 2}, "thorough": {"L": 3}},
         shard={"k": range(8)},
         sym=["h: str over all code points, len <= L"], sel=["k: explicit expected strings for script/style/HTML/attribute cases"],
         targets=["htmltools._core.Tag.get_html_string"],
         timeout={"quick": 150, "thorough": 900})
def h_verbatim_explicit(k: int, h: str) -> bool:
    if k == 0:
        return Tag("script", h).get_html_string() == "<script>" + h + "</script>"
    if k == 1:
        return Tag("script", h, "<&>", HTML("&amp;")).get_html_string() == "<script>\n  " + h + "<&>&amp;\n</script>"
    if k == 2:
        return Tag("style", "a>b{}", h, _add_ws=False).get_html_string() == "<style>a>b{}" + h + "</style>"
    if k == 3:
        return Tag("div", HTML(h)).get_html_string() == "<div>" + h + "</div>"
    if k == 4:
        return Tag("a", href=HTML(h), x="<").get_html_string() == '<a href="' + h + '" x="&lt;"></a>'
    if k == 6:
        from htmltools import HTMLDependency, MetadataNode
        return Tag("script", MetadataNode(), h, HTMLDependency("d", "1.0")).get_html_string() == "<script>" + h + "</script>"
    if k == 7:
        from htmltools import MetadataNode
        return Tag("style", h, MetadataNode(), _add_ws=False).get_html_string() == "<style>" + h + "</style>"
    return Tag("div", RH(h), "<").get_html_string() == "<div>\n  " + h + "&lt;\n</div>"


_MARKUP = ['<b class="x">&amp; &</b>', "m" * 63 + "<i>", "n" * 64 + "<&>", "<p>" + "a &amp;&amp; b " * 12 + "</p>", "q" * 127 + "<", "r" * 128 + "<br/>",
           "<code>x && y</code>\n" * 20, "é☃<u>&#233;</u> " * 60, "<" * 1100, "s" * 255 + "&", "t" * 256 + "&", "w" * 4096 + "<hr/>"]
N_HIST = 6


@harness("C04", pre=lambda B, mv, order: 0 <= mv < len(_MARKUP) and 0 <= order < N_HIST,
         shard={"mv": range(len(_MARKUP))},
         sel=["mv: markup strings of 23 to 4101 characters (lengths on both sides of 64, 128, 256, 1024, 4096; entities, newlines, non-ASCII)",
              "order: 6 histories - the same characters emitted as plain text / attribute / script text before, between and after being emitted as HTML(), as a sole child and among siblings, and concatenated with themselves"],
         targets=["htmltools._core._normalize_text", "htmltools._core.Tag.get_html_string", "htmltools._core.TagList.get_html_string", "htmltools._core.HTML.__add__",
                  "htmltools._util.html_escape"],
         outside="strings are catalogue values: the harness targets state carried between renderings (memoisation keyed by text, where HTML(s) == s), "
                 "and length thresholds that the symbolic bound of 2-3 characters cannot reach")
def h_verbatim_history(mv: int, order: int) -> bool:
    """verbatim emission and escape-exactly-once do not depend on what was rendered earlier in the process"""
    from engine.api import conc, concrete
    return concrete(_vhist_body, conc(mv, 0, len(_MARKUP) - 1), conc(order, 0, N_HIST - 1))


def _vhist_body(mv: int, order: int) -> bool:
    m = _MARKUP[mv]
    esc = ref_escape_text(m)
    plain1 = lambda: Tag("span", m).get_html_string() == "<span>" + esc + "</span>"                               # noqa: E731
    plainN = lambda: Tag("span", m, Tag("i", _add_ws=False), _add_ws=False).get_html_string() == "<span>" + esc + "<i></i></span>"              # noqa: E731
    html1 = lambda: Tag("span", HTML(m)).get_html_string() == "<span>" + m + "</span>"                            # noqa: E731
    htmlN = lambda: Tag("span", Tag("i", _add_ws=False), HTML(m), _add_ws=False).get_html_string() == "<span><i></i>" + m + "</span>"           # noqa: E731
    top = lambda: TagList(HTML(m)).get_html_string() == m and TagList(m).get_html_string() == esc                  # noqa: E731
    script = lambda: Tag("script", m).get_html_string() == "<script>" + m + "</script>"                           # noqa: E731
    attr = lambda: Tag("a", title=HTML(m)).get_html_string() == '<a title="' + m + '"></a>'                       # noqa: E731
    pattr = lambda: Tag("a", title=m).get_html_string().startswith('<a title="')                                  # noqa: E731
    rh = lambda: Tag("span", RH(m), _add_ws=False).get_html_string() == "<span>" + m + "</span>"                                 # noqa: E731

    def cat():
        c = HTML(m) + m
        d = m + HTML(m)
        return isinstance(c, HTML) and isinstance(d, HTML) and Tag("span", c).get_html_string() == "<span>" + m + esc + "</span>" \
            and Tag("span", d).get_html_string() == "<span>" + esc + m + "</span>" \
            and Tag("span", HTML(m), m, _add_ws=False).get_html_string() == "<span>" + m + esc + "</span>"
    seqs = [[plain1, html1, plain1, htmlN], [html1, plain1, html1, plainN], [script, html1, plain1, script, top], [pattr, attr, html1, plain1, attr],
            [plainN, cat, html1, plain1], [rh, plain1, rh, html1, top, cat]]
    for step in seqs[order]:
        if not step():
            return False
    return True
