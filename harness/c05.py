"""C05 No whitespace is ever injected into inline content."""
from __future__ import annotations

from htmltools import Tag, TagList

from engine.api import conc, concrete, harness, pick
from oracles.trees import (CATALOGUE, INLINE_CHILD, N_CHILD, b_el, b_rh, block_names_of, child, flat, ws_positions_ok)

N_INL = len(INLINE_CHILD)
S_SET = [k for k in INLINE_CHILD if CATALOGUE[k][0] in ("inline", "br")]          # inline-only element subtrees
AB_SET = [k for k in INLINE_CHILD if CATALOGUE[k][0] != "meta"]                    # nodes without a ws-enabled tag
# representative entries first (absent, text, html, metadata, void block, block with children, inline with block inside, rh) so that a
# small quick bound still sees every kind
ALL = [0, 1, 4, 7, 8 + 3, 8 + 7, 18 + 6, 3] + [k for k in range(N_CHILD) if k not in (0, 1, 4, 7, 8 + 3, 8 + 7, 18 + 6, 3)]
N_CTX = 4


def ctx(c: int, kids, indent: int, eol: str) -> str:
    reals = [k[0] for k in kids]
    if c == 0:
        return Tag("div", *reals).get_html_string(indent, eol)
    if c == 1:
        return TagList(*reals).get_html_string(indent, eol)
    if c == 2:
        return Tag("div", Tag("span", *reals, _add_ws=False), "x").get_html_string(indent, eol)   # block-inside-inline allowed
    return Tag("section", Tag("div", *reals), Tag("p")).get_html_string(indent, eol)


def _pre_exact(B, k0, k1, k2, indent, eol):
    return 0 <= k0 < N_INL and 0 <= k1 < N_INL and 0 <= k2 < B["K2"] and 0 <= indent <= B["I"] and len(eol) <= B["E"]


@harness("C05", pre=_pre_exact, bounds={"quick": {"I": 2, "E": 1, "K2": 3}, "thorough": {"I": 3, "E": 2, "K2": N_INL}},
         shard={"k0": range(N_INL)},
         sym=["indent: int in [0, I]", "eol: str over all code points, len <= E"],
         sel=["k0, k1, k2: children of an inline root from the catalogue of nodes without a whitespace-enabled tag (3 levels deep)"],
         targets=["htmltools._core.Tag.get_html_string", "htmltools._core.TagList.get_html_string"],
         timeout={"quick": 300, "thorough": 1500})
def h_inline_exact(k0: int, k1: int, k2: int, indent: int, eol: str) -> bool:
    """an inline-only subtree renders as the exact concatenation of its tags and content, whatever indent/eol"""
    kids = [child(pick(k, INLINE_CHILD), i) for i, k in enumerate((k0, k1, k2))]
    real, a = b_el("span", False, kids, [("id", "r")])
    return real.get_html_string(indent, eol) == "  " * indent + flat(a)


def _pre_subst(B, c, L, S, R, pr):
    return 0 <= c < N_CTX and 0 <= L < N_CHILD and 0 <= S < len(S_SET) and 0 <= R < B["R"] and 0 <= pr <= B["PR"]


@harness("C05", pre=_pre_subst, bounds={"quick": {"R": N_CHILD, "PR": 0}, "thorough": {"R": N_CHILD, "PR": 1}},
         shard={"c": range(N_CTX), "S": range(len(S_SET))},
         sel=["c: context (block parent, top-level list, inline parent inside a block, nested block)", "L, R: left/right sibling, any catalogue child incl. blocks and metadata",
              "S: inline-only element subtree", "pr: (indent, eol)"],
         targets=["htmltools._core.TagList.get_html_string"],
         timeout={"quick": 200, "thorough": 1500})
def h_context_subst(c: int, L: int, S: int, R: int, pr: int) -> bool:
    """the exact string flat(S) appears contiguously wherever S is placed: replacing S by a self-rendering
    object that returns flat(S) changes nothing"""
    return concrete(_subst_body, conc(c, 0, N_CTX - 1), pick(L, ALL), pick(S, S_SET), pick(R, ALL), conc(pr, 0, 1))


def _subst_body(c: int, iL: int, iS: int, iR: int, pr: int) -> bool:
    indent, eol = [(0, "\n"), (2, "\r\n")][pr]
    l, s, r = child(iL, 0), child(iS, 1), child(iR, 2)
    k1 = [x for x in (l, s, r) if x is not None]
    k2 = [x for x in (l, b_rh(flat(s[1])), r) if x is not None]
    return ctx(c, k1, indent, eol) == ctx(c, k2, indent, eol)


def _pre_adj(B, c, A, Bk, Z, pr):
    return 0 <= c < N_CTX and 0 <= A < len(AB_SET) and 0 <= Bk < len(AB_SET) and 0 <= Z < B["Z"] and 0 <= pr <= B["PR"]


@harness("C05", pre=_pre_adj, bounds={"quick": {"Z": N_CHILD, "PR": 0}, "thorough": {"Z": N_CHILD, "PR": 1}},
         shard={"c": range(N_CTX), "A": range(len(AB_SET))},
         sel=["c: context", "A, Bk: adjacent siblings neither of which contains a whitespace-enabled tag", "Z: following sibling (any)", "pr"],
         targets=["htmltools._core.TagList.get_html_string"],
         timeout={"quick": 200, "thorough": 1500})
def h_adjacent(c: int, A: int, Bk: int, Z: int, pr: int) -> bool:
    """adjacent siblings without a whitespace-enabled tag are emitted with nothing between them"""
    return concrete(_adj_body, conc(c, 0, N_CTX - 1), pick(A, AB_SET), pick(Bk, AB_SET), pick(Z, ALL), conc(pr, 0, 1))


def _adj_body(c: int, iA: int, iB: int, iZ: int, pr: int) -> bool:
    indent, eol = [(0, "\n"), (1, "\r\n")][pr]
    a, b, z = child(iA, 0), child(iB, 1), child(iZ, 2)
    k1 = [x for x in (a, b, z) if x is not None]
    k2 = [x for x in (b_rh(flat(a[1]) + flat(b[1])), z) if x is not None]
    return ctx(c, k1, indent, eol) == ctx(c, k2, indent, eol)


NOWS = [k for k in range(N_CHILD) if CATALOGUE[k][0] != "textnl"]


@harness("C05", pre=lambda B, root, k0, k1, k2: 0 <= root <= 1 and 0 <= k0 < len(NOWS) and 0 <= k1 < len(NOWS) and 0 <= k2 < (len(NOWS) if B["THREE"] else 1),
         bounds={"quick": {"THREE": False}, "thorough": {"THREE": True}},
         shard={"root": range(2), "k0": range(len(NOWS))},
         sel=["root: block / inline root tag", "k0, k1, k2: any catalogue child without whitespace in its leaves (block-inside-inline included)"],
         targets=["htmltools._core.Tag.get_html_string"],
         timeout={"quick": 200, "thorough": 900})
def h_ws_positions(root: int, k0: int, k1: int, k2: int) -> bool:
    """layout whitespace only ever appears immediately inside or outside the opening/closing tag of a block tag"""
    return concrete(_ws_body, conc(root, 0, 1), pick(k0, NOWS), pick(k1, NOWS), pick(k2, NOWS))


def _ws_body(root: int, i0: int, i1: int, i2: int) -> bool:
    kids = [child(k, i) for i, k in enumerate((i0, i1, i2))]
    kids = [k for k in kids if k is not None]
    real, a = b_el("div" if root == 0 else "span", root == 0, kids, [("id", "r"), ("class", "c")])
    return ws_positions_ok(real.get_html_string(), block_names_of(a))
