"""C06 Block layout follows the documented line and indentation rules."""
from __future__ import annotations

from engine.api import conc, concrete, harness, pick
from oracles.trees import (INLINE_CHILD, VALID_CHILD, b_el, b_list, child, spec_list, spec_tag, valid_nesting)

N_VALID = len(VALID_CHILD)      # 24
N_INL = len(INLINE_CHILD)

_PAIRS = [(0, "\n"), (2, "\r\n"), (1, ""), (3, "<!--e-->\n")]


def _build(root: int, ks):
    cands = VALID_CHILD if root != 1 else INLINE_CHILD
    kids = []
    for i, k in enumerate(ks):
        if k < 0:
            continue
        c = child(pick(k, cands), i)
        if c is not None:
            kids.append(c)
    if root == 2:
        real, a = b_list(kids)
        return real, a, True
    real, a = b_el("div" if root == 0 else "span", root == 0, kids, [("id", "r")])
    return real, a, False


def _render_spec(real, a, is_list, indent, eol):
    if is_list:
        return real.get_html_string(indent, eol), spec_list(a, indent, eol)
    return real.get_html_string(indent, eol), spec_tag(a, indent, eol)


def _pre_layout(B, root, k0, k1, k2, pr):
    n = N_INL if root == 1 else N_VALID
    if not (0 <= root <= 2 and 0 <= k0 < n and 0 <= k1 < n and 0 <= pr < B["PAIRS"]):
        return False
    if B["SLOTS"] == 3:
        return 0 <= k2 < n
    return k2 == -1


@harness("C06", pre=_pre_layout,
         bounds={"quick": {"SLOTS": 2, "PAIRS": 4}, "thorough": {"SLOTS": 3, "PAIRS": 4}},
         shard=lambda B: [{"root": r, "k0": k} for r in range(3) for k in range(N_INL if r == 1 else N_VALID)],
         sel=["root: block tag / inline tag / top-level list", "k0..k2: child variants from the catalogue of validly nested children "
              "(text, text with newline, HTML(), _repr_html_ object, metadata, void inline/block, block and inline elements with 10 grandchild patterns up to depth 3)",
              "pr: (indent, eol) pair from a fixed list"],
         targets=["htmltools._core.Tag.get_html_string", "htmltools._core.TagList.get_html_string"],
         timeout={"quick": 200, "thorough": 1500},
         outside="trees deeper than root + child + 3 levels of grandchild pattern; more than SLOTS children of the root")
def h_layout(root: int, k0: int, k1: int, k2: int, pr: int) -> bool:
    """real renderer == line-based specification"""
    cands = VALID_CHILD if root != 1 else INLINE_CHILD
    return concrete(_layout_body, conc(root, 0, 2), pick(k0, cands), pick(k1, cands), pick(k2, cands) if k2 >= 0 else -1, conc(pr, 0, 3))


def _layout_body(root: int, i0: int, i1: int, i2: int, pr: int) -> bool:
    kids = [child(k, i) for i, k in enumerate((i0, i1, i2)) if k >= 0]
    kids = [k for k in kids if k is not None]
    if root == 2:
        real, a = b_list(kids)
    else:
        real, a = b_el("div" if root == 0 else "span", root == 0, kids, [("id", "r")])
    indent, eol = _PAIRS[pr]
    got, want = _render_spec(real, a, root == 2, indent, eol)
    return got == want


_SMALL = [1, 3, 4, 8 + 3, 8 + 7, 18 + 1]   # indices into the full catalogue: text, _repr_html_, metadata, 2 block patterns, 1 inline
_TINY = [1, 3, 7, 8 + 0, 8 + 1, 18 + 1]      # text, _repr_html_, void block, empty block, block with single text, inline with text
_EOLS = ["\n", "\r\n", ""]


def _small_tree(root, ks, cat):
    kids = []
    for i, kk in enumerate(ks):
        idx = pick(kk, cat)
        if root == 1 and idx not in INLINE_CHILD:
            return None
        kids.append(child(idx, i))
    if root == 2:
        real, a = b_list(kids)
        return real, a, True
    real, a = b_el("div" if root == 0 else "span", root == 0, kids, [("id", "r")])
    return real, a, False


@harness("C06",
         pre=lambda B, root, k0, k1, indent, e: 0 <= root <= 2 and 0 <= k0 < len(_SMALL) and 0 <= k1 < len(_SMALL) and 0 <= indent <= B["I"] and 0 <= e <= 2,
         bounds={"quick": {"I": 3}, "thorough": {"I": 8}},
         shard=lambda B: [{"root": r, "k0": k} for r in range(3) for k in range(len(_SMALL))],
         sym=["indent: int in [0, I]"],
         sel=["root, k0, k1 over a 6-variant sub-catalogue (36 shapes per root)", "e: eol from {LF, CRLF, empty}"],
         targets=["htmltools._core.Tag.get_html_string", "htmltools._core.TagList.get_html_string"],
         timeout={"quick": 300, "thorough": 1500})
def h_layout_sym(root: int, k0: int, k1: int, indent: int, e: int) -> bool:
    """the same comparison with the indent as a solver variable"""
    t = _small_tree(root, (k0, k1), _SMALL)
    if t is None:
        return True
    real, a, is_list = t
    eol = pick(e, _EOLS)
    got, want = _render_spec(real, a, is_list, indent, eol)
    return got == want


@harness("C06",
         pre=lambda B, root, k0, k1, indent, eol: 0 <= root <= 2 and 0 <= k0 < len(_TINY) and 0 <= k1 < len(_TINY) and 0 <= indent <= 1 and len(eol) <= B["E"],
         bounds={"quick": {"E": 1}, "thorough": {"E": 2}},
         shard=lambda B: [{"root": r, "k0": k} for r in range(3) for k in range(len(_TINY))],
         sym=["eol: str over all code points, len <= E"],
         sel=["root, k0, k1 over a 6-variant catalogue of one-level children", "indent in {0, 1}"],
         targets=["htmltools._core.Tag.get_html_string", "htmltools._core.TagList.get_html_string"],
         timeout={"quick": 300, "thorough": 1500})
def h_eol_sym(root: int, k0: int, k1: int, indent: int, eol: str) -> bool:
    """the line separator as a solver variable (any string, all of Unicode)"""
    t = _small_tree(root, (k0, k1), _TINY)
    if t is None:
        return True
    real, a, is_list = t
    ind = 1 if indent == 1 else 0
    got, want = _render_spec(real, a, is_list, ind, eol)
    return got == want


@harness("C06",
         pre=lambda B, root, k0, k1, k, e: 0 <= root <= 2 and 0 <= k0 < len(_SMALL) and 0 <= k1 < len(_SMALL) and 0 <= k <= B["I"] and 0 <= e <= 2,
         bounds={"quick": {"I": 3}, "thorough": {"I": 8}},
         shard=lambda B: [{"root": r, "k0": k} for r in range(3) for k in range(len(_SMALL))],
         sym=["k: indent in [0, I]"], sel=["root, k0, k1 over the 6-variant sub-catalogue", "e: eol from {LF, CRLF, empty}"],
         targets=["htmltools._core.Tag.get_html_string", "htmltools._core.TagList.get_html_string"],
         timeout={"quick": 300, "thorough": 1500},
         note="metamorphic, no oracle: indent=k shifts every layout line by 2k spaces and eol replaces the separator")
def h_shift(root: int, k0: int, k1: int, k: int, e: int) -> bool:
    t = _small_tree(root, (k0, k1), _SMALL)
    if t is None:
        return True
    real, a, is_list = t
    eol = pick(e, _EOLS)
    base = real.get_html_string(0, "\n")
    shifted = real.get_html_string(k, eol)
    if base == "":
        return shifted == ""
    want = ""
    first = True
    for ln in base.split("\n"):
        if not first:
            want += eol
        first = False
        want += "  " * k + ln
    return shifted == want
