"""C07 Metadata nodes leave no trace in the markup."""
from __future__ import annotations

from htmltools import HTMLDependency, MetadataNode, Tag, TagList

from engine.api import harness, pick
from oracles.trees import CATALOGUE, N_CHILD, child

_PAIRS = [(0, "\n"), (2, "\r\n")]


class _Ins:
    """inserts a fresh metadata node at every insertion point whose mask bit is set; remembers them in order"""

    def __init__(self, mask: int):
        self.mask = mask
        self.n = 0
        self.inserted = []

    def maybe(self):
        bit = (self.mask >> (self.n % 12)) & 1
        self.n += 1
        if bit == 0:
            return []
        i = len(self.inserted)
        m = MetadataNode() if i % 3 == 2 else HTMLDependency("ins" + str(i), "1.0", head="<!--ins-->")
        self.inserted.append(m)
        return [m]


def with_meta(x, ins: _Ins):
    """copy of the tree x with metadata nodes inserted before/after every child at every level"""
    if isinstance(x, Tag):
        kids = []
        for c in x.children:
            kids.extend(ins.maybe())
            kids.append(with_meta(c, ins))
        kids.extend(ins.maybe())
        return Tag(x.name, dict(x.attrs), *kids, _add_ws=x.add_ws)
    return x


def deps_in_order(x):
    out = []
    if isinstance(x, HTMLDependency):
        out.append(x)
    elif isinstance(x, Tag):
        for c in x.children:
            out.extend(deps_in_order(c))
    return out


def _pre(B, root, k0, k1, mask, pr):
    return 0 <= root <= 3 and 0 <= k0 < N_CHILD and 0 <= k1 < N_CHILD and 0 <= mask < B["M"] and 0 <= pr <= 1


_MASKS = [0b1, 0b10, 0b100, 0b1000, 0b11, 0b101010, 0b111111111111, 0b10000, 0b100000, 0b110000, 0b1000000, 0b011011011011]


@harness("C07", pre=_pre, bounds={"quick": {"M": 6}, "thorough": {"M": 12}},
         shard=lambda B: [{"root": r, "k0": k} for r in range(4) for k in range(N_CHILD)],
         sel=["root: block / inline / void (br) / list", "k0, k1: any catalogue child (valid nesting or not)",
              "mask: which insertion points (before/after every child at every level, incl. only-child and several in a row) get a metadata node",
              "pr: (indent, eol)"],
         targets=["htmltools._core.Tag.get_html_string", "htmltools._core.TagList.get_html_string", "htmltools._core.TagList.get_dependencies"],
         timeout={"quick": 200, "thorough": 1500})
def h_meta_invisible(root: int, k0: int, k1: int, mask: int, pr: int) -> bool:
    kids = []
    for i, k in enumerate((k0, k1)):
        c = child(k if isinstance(k, int) and False else pick(k, list(range(N_CHILD))), i)
        if c is not None and CATALOGUE[pick(k, list(range(N_CHILD)))][0] != "meta":
            kids.append(c[0])
    indent, eol = pick(pr, _PAIRS)
    ins = _Ins(pick(mask, _MASKS))
    if root == 3:
        base = TagList(*kids)
        plus_kids = []
        for c in kids:
            plus_kids.extend(ins.maybe())
            plus_kids.append(with_meta(c, ins))
        plus_kids.extend(ins.maybe())
        plus = TagList(*plus_kids)
        base_deps = []
        for c in kids:
            base_deps.extend(deps_in_order(c))
        plus_deps = []
        for c in plus_kids:
            plus_deps.extend(deps_in_order(c))
    else:
        if root == 2:
            kids = []           # a childless void tag must stay self-closed
        base = Tag(("div", "span", "br")[root], {"id": "r"}, *kids, _add_ws=(root == 0))
        plus = with_meta(base, ins)
        base_deps = deps_in_order(base)
        plus_deps = deps_in_order(plus)
    if plus.get_html_string(indent, eol) != base.get_html_string(indent, eol):
        return False
    if plus.render()["html"] != base.render()["html"]:
        return False
    # they affect only the dependency list: exactly the dependencies present, in document order
    got = plus.get_dependencies(dedup=False)
    if len(got) != len(plus_deps):
        return False
    for g, w in zip(got, plus_deps):
        if g is not w:
            return False
    ins_deps = [m for m in ins.inserted if isinstance(m, HTMLDependency)]
    return len(plus_deps) == len(base_deps) + len(ins_deps)
