"""C07 Metadata nodes leave no trace in the markup."""
from __future__ import annotations

from htmltools import HTMLDependency, MetadataNode, Tag, TagList

from engine import api
from engine.api import harness, pick
from oracles.trees import CATALOGUE, N_CHILD, child

_PAIRS = [(0, "\n"), (2, "\r\n")]


_ALL = list(range(N_CHILD))
_FULL = [False]


class _Ins:
    """inserts a fresh metadata node at every insertion point whose mask bit is set; remembers them in order"""

    def __init__(self, mask: int):
        self.mask = mask
        self.n = 0
        self.inserted = []

    def maybe(self):
        bit = (self.mask >> (self.n % 12)) & 1
        self.n += 1
        if bit == 0:
            return []
        out = []
        reps = 1 + ((self.mask >> 12) & 3)          # bits 12-13: how many nodes in a row at every chosen point
        for _ in range(reps):
            i = len(self.inserted)
            m = MetadataNode() if i % 3 == 2 else HTMLDependency("ins" + str(i), "1.0", head="<!--ins-->")
            self.inserted.append(m)
            out.append(m)
        return out


def with_meta(x, ins: _Ins):
    """copy of the tree x with metadata nodes inserted before/after every child at every level"""
    if isinstance(x, Tag):
        kids = []
        for c in x.children:
            kids.extend(ins.maybe())
            kids.append(with_meta(c, ins))
        kids.extend(ins.maybe())
        return Tag(x.name, dict(x.attrs), *kids, _add_ws=x.add_ws)
    return x


def deps_in_order(x):
    out = []
    if isinstance(x, HTMLDependency):
        out.append(x)
    elif isinstance(x, Tag):
        for c in x.children:
            out.extend(deps_in_order(c))
    return out


_K1_QUICK = [0, 1, 3, 4, 6, 7, 8 + 0, 8 + 1, 8 + 5, 8 + 7, 18 + 1, 18 + 7]


def _pre(B, root, k0, k1, mask, pr):
    return 0 <= root <= 3 and 0 <= k0 < N_CHILD and 0 <= k1 < (N_CHILD if B["FULL"] else len(_K1_QUICK)) and 0 <= mask < B["M"] and 0 <= pr <= 2


_MASKS = [0b111111111111, 0b1000000000001 | 0b10 | 0b1000, 0b101010, 0b10000000000000 | 0b111111111111, 0b1, 0b10, 0b100, 0b1000, 0b11, 0b10000, 0b100000, 0b110000, 0b1000000, 0b011011011011]


@harness("C07", pre=_pre, bounds={"quick": {"M": 4, "FULL": False}, "thorough": {"M": 14, "FULL": True}},
         shard=lambda B: [{"root": r, "k0": k} for r in range(4) for k in range(N_CHILD)],
         sel=["root: block / inline / void (br) / list", "k0, k1: any catalogue child (valid nesting or not)",
              "mask: which insertion points (before/after every child at every level, incl. only-child and several in a row) get a metadata node",
              "pr: get_html_string(0, LF) / get_html_string(2, CRLF) / render()"],
         targets=["htmltools._core.Tag.get_html_string", "htmltools._core.TagList.get_html_string", "htmltools._core.TagList.get_dependencies"],
         timeout={"quick": 200, "thorough": 1500})
def h_meta_invisible(root: int, k0: int, k1: int, mask: int, pr: int) -> bool:
    _FULL[0] = bool(api.CURRENT.get("FULL"))
    i0 = pick(k0, _ALL)
    i1 = pick(k1, _ALL) if _FULL[0] else pick(k1, _K1_QUICK)
    return api.concrete(_body, api.conc(root, 0, 3), i0, i1, pick(mask, _MASKS), api.conc(pr, 0, 2))


def _body(root: int, i0: int, i1: int, maskval: int, pr: int) -> bool:
    kids = []
    for i, idx in enumerate((i0, i1)):
        c = child(idx, i)
        if c is not None and CATALOGUE[idx][0] != "meta":
            kids.append(c[0])
    ins = _Ins(maskval)
    if root == 3:
        base = TagList(*kids)
        plus_kids = []
        for c in kids:
            plus_kids.extend(ins.maybe())
            plus_kids.append(with_meta(c, ins))
        plus_kids.extend(ins.maybe())
        plus = TagList(*plus_kids)
        base_deps = []
        for c in kids:
            base_deps.extend(deps_in_order(c))
        plus_deps = []
        for c in plus_kids:
            plus_deps.extend(deps_in_order(c))
    else:
        if root == 2:
            kids = []           # a childless void tag must stay self-closed
        base = Tag(("div", "span", "br")[root], {"id": "r"}, *kids, _add_ws=(root == 0))
        plus = with_meta(base, ins)
        base_deps = deps_in_order(base)
        plus_deps = deps_in_order(plus)
    if pr == 2:
        if plus.render()["html"] != base.render()["html"]:
            return False
    else:
        indent, eol = _PAIRS[1] if pr == 1 else _PAIRS[0]
        if plus.get_html_string(indent, eol) != base.get_html_string(indent, eol):
            return False
    # they affect only the dependency list: exactly the dependencies present, in document order
    got = plus.get_dependencies(dedup=False)
    if len(got) != len(plus_deps):
        return False
    for g, w in zip(got, plus_deps):
        if g is not w:
            return False
    ins_deps = [m for m in ins.inserted if isinstance(m, HTMLDependency)]
    return len(plus_deps) == len(base_deps) + len(ins_deps)


def _raw_body(name: int, tx: int, maskval: int, extra: int) -> bool:
    nm = ["script", "style", "div", "textarea"][name]
    text = ["a < b && c", "x>y{}", "plain", "</p>&amp;"][tx]
    kids = [text] if extra == 0 else [text, "more<"]
    base = Tag(nm, *kids)
    ins = _Ins(maskval)
    plus = with_meta(base, ins)
    return plus.get_html_string() == base.get_html_string() and plus.render()["html"] == base.render()["html"] \
        and (len(ins.inserted) == 0 or len(plus.children) > len(base.children))


@harness("C07", pre=lambda B, name, tx, mask, extra: 0 <= name <= 3 and 0 <= tx <= 3 and 0 <= mask < len(_MASKS) and 0 <= extra <= 1,
         shard={"name": range(4)},
         sel=["name: script / style / div / textarea", "tx: text with markup metacharacters", "mask: metadata insertion points", "extra: one or two text children"],
         targets=["htmltools._core.Tag.get_html_string"])
def h_meta_raw_text(name: int, tx: int, mask: int, extra: int) -> bool:
    """metadata nodes next to the text of a raw-text element (script/style) or an ordinary one leave the markup unchanged
    (in particular they do not switch the text between escaped and verbatim)"""
    return api.concrete(_raw_body, api.conc(name, 0, 3), api.conc(tx, 0, 3), pick(mask, _MASKS), api.conc(extra, 0, 1))


@harness("C07", pre=lambda B, nm, mk, t: 0 <= nm <= 3 and 0 <= mk <= 4 and len(t) <= B["L"], bounds={"quick": {"L": 2}, "thorough": {"L": 3}},
         shard={"nm": range(4), "mk": range(5)},
         sym=["t: text child, str over all code points, len <= L"],
         sel=["nm: block / inline / script / void-named parent", "mk: where the metadata goes (before, after, both sides, two in a row, between two texts)"],
         targets=["htmltools._core.Tag.get_html_string"], timeout={"quick": 200, "thorough": 1200})
def h_meta_text_sym(nm: int, mk: int, t: str) -> bool:
    """with arbitrary text: metadata around a text child changes nothing (one-line form, escaping or not, void-named parents)"""
    name = pick(nm, ["div", "span", "script", "br"])
    ws = nm == 0
    m1, m2 = MetadataNode(), HTMLDependency("x", "1.0")
    if mk == 0:
        kids, base = [m1, t], [t]
    elif mk == 1:
        kids, base = [t, m2], [t]
    elif mk == 2:
        kids, base = [m1, t, m2], [t]
    elif mk == 3:
        kids, base = [t, m1, m2, MetadataNode()], [t]
    else:
        kids, base = [t, m1, "<&>", m2], [t, "<&>"]
    return Tag(name, *kids, _add_ws=ws).get_html_string() == Tag(name, *base, _add_ws=ws).get_html_string()
