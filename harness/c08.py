"""C08 Rendering and tagify are pure and consistent; tagify returns an independent copy."""
from __future__ import annotations

import copy

from htmltools import HTML, HTMLDependency, HTMLDocument, MetadataNode, Tag, TagList, head_content

from engine.api import conc, concrete, harness, pick
from oracles.snapshot import identities, snap
from oracles.util import RH, TF

N_SHAPE = 11


class TFn:
    """a tagifiable that builds a fresh expansion on every call (like real components do)"""

    def __init__(self, fn):
        self.fn = fn

    def tagify(self):
        return self.fn()



def shape(k: int, s: str = "&t\""):
    """fresh tree number k; s is used as text, attribute value and language tag"""
    dep = HTMLDependency("d", "1.2", source={"subdir": "lib d"}, script=[{"src": "a b.js"}, {"src": "c.js", "defer": ""}],
                         stylesheet={"href": "x/y.css"}, meta={"name": "n", "content": s}, head=Tag("title", s))
    dep2 = HTMLDependency("d", "1.10", source={"href": "http://h/"}, script={"src": "z.js"})
    # no source at all, paths that percent-encoding changes
    dep3 = HTMLDependency("nosrc", "0.1", script=[{"src": "a b.js"}, {"src": "q?x=1&y.js", "defer": ""}], stylesheet={"href": "é☃ 100%.css"})
    dep4 = HTMLDependency("emptyhref", "0.2", source={"href": ""}, script={"src": "sp ace.js"}, all_files=True)
    if k == 0:
        return Tag("div", {"class": s, "id": "i"}, s, Tag("span", HTML("<u>" + s + "</u>"), dep, _add_ws=False), Tag("p"), title=s)
    if k == 1:
        return TagList(dep, Tag("p", s, dep2, dep3), s, MetadataNode(), dep4)
    if k == 2:
        return Tag("html", Tag("head", Tag("title", s)), Tag("body", s, dep), lang="x")
    if k == 3:
        return Tag("html", dep2, Tag("body", Tag("div", s)))
    if k == 4:
        return Tag("body", dep, s, class_=s)
    if k == 5:
        return Tag("div", TFn(lambda: TagList(s, Tag("b", s), dep2)), RH("<r>" + s), TFn(lambda: Tag("i", dep)))
    if k == 6:
        return TagList(head_content(Tag("style", s)), Tag("div", head_content(Tag("style", s)), dep, dep2, dep3))
    if k == 7:
        return Tag("head", Tag("meta", name=s), dep)
    if k == 8:
        return TagList(Tag("html", Tag("body", s)), Tag("p", s))
    if k == 10:
        return TagList(s, "plain", 3)
    return Tag("span", s, 5, [None, [s, Tag("br")]], _add_ws=False)


N_OP = 15


def deps_of(x):
    out = []
    if isinstance(x, HTMLDependency):
        out.append(x)
    elif isinstance(x, Tag):
        for c in x.children:
            out.extend(deps_of(c))
    elif isinstance(x, TagList):
        for c in x:
            out.extend(deps_of(c))
    return out


def apply(op: int, x):
    """a read-only operation; returns a normal form of its result"""
    if op == 0:
        return snap(x.tagify(), False)
    if op == 1:
        r = x.render()
        return (r["html"], [repr(d) for d in r["dependencies"]])
    if op == 2:
        return str(x)
    if op == 3:
        return repr(x)
    if op == 4:
        return x._repr_html_()
    if op == 5:
        return x.tagify().get_html_string(1, "\r\n")
    if op == 6:
        return [repr(d) for d in x.get_dependencies()] + ["|"] + [repr(d) for d in x.get_dependencies(dedup=False)]
    if op == 7:
        return snap(copy.copy(x), False)
    if op == 8:
        r = HTMLDocument(x, lang="en", class_="c").render()
        return (r["html"], [repr(d) for d in r["dependencies"]])
    if op == 9:
        r = HTMLDocument(x).render(lib_prefix=None, include_version=False)
        return (r["html"], [repr(d) for d in r["dependencies"]])
    if op == 10:
        return [str(d.as_html_tags(lib_prefix="L", include_version=False)) for d in deps_of(x)]
    if op == 11:
        return [snap(d.as_dict(), False) for d in deps_of(x)]
    if op == 12:
        return [snap(d.source_path_map(lib_prefix=None), False)[1:] for d in deps_of(x) if d.source is None or "href" in d.source or True]
    if op == 13:
        return [d.serialize_to_script_json(indent=2).get_html_string() for d in deps_of(x)]
    return (x == copy.copy(x), x == x.tagify())


def _pure_body(k: int, op1: int, op2: int) -> bool:
    x = shape(k)
    before = snap(x)
    r1 = apply(op1, x)
    if snap(x) != before:
        return False
    r2 = apply(op2, x)
    if snap(x) != before:
        return False
    # the second operation gives what it gives on a fresh identical tree, and repeating the first gives the same again
    if r2 != apply(op2, shape(k)):
        return False
    return apply(op1, x) == r1 and snap(x) == before


@harness("C08", pre=lambda B, k, op1, op2: 0 <= k < N_SHAPE and 0 <= op1 < N_OP and 0 <= op2 < N_OP,
         shard={"k": range(N_SHAPE), "op1": range(N_OP)},
         sel=["k: 11 tree shapes (dependencies, HTML(), nested tags, html/body/head roots, tagifiable and self-rendering objects, head_content, nested lists)",
              "op1, op2: ordered pair from 15 read-only operations (tagify, render, str, repr, _repr_html_, get_html_string, get_dependencies, copy.copy, "
              "HTMLDocument.render with html attributes, with lib_prefix=None, as_html_tags, as_dict, source_path_map, serialize_to_script_json, ==)"],
         targets=["htmltools._core.Tag.tagify", "htmltools._core.TagList.tagify", "htmltools._core.HTMLDocument._gen_html_tag_tree",
                  "htmltools._core.HTMLDocument._hoist_head_content", "htmltools._core.HTMLDependency.as_dict", "htmltools._core.Tag.__copy__"],
         outside="save_html (its purity is checked in C12 over the fake file system); objects inside a dependency's payload shared by copy()")
def h_pure_ops(k: int, op1: int, op2: int) -> bool:
    """every read-only operation leaves every reachable object structurally unchanged (identity included)"""
    return concrete(_pure_body, conc(k, 0, N_SHAPE - 1), conc(op1, 0, N_OP - 1), conc(op2, 0, N_OP - 1))


@harness("C08", pre=lambda B, k, op, s: k in (0, 2, 4) and op in (1, 8, 0) and len(s) <= B["L"],
         bounds={"quick": {"L": 1}, "thorough": {"L": 2}},
         shard={"k": (0, 2, 4), "op": (0, 1, 8)},
         sym=["s: str over all code points, len <= L, used as text, attribute value and class"],
         targets=["htmltools._core.HTMLDocument.render", "htmltools._core.Tag.render"], timeout={"quick": 300, "thorough": 1500})
def h_pure_sym(k: int, op: int, s: str) -> bool:
    x = shape(k, s)
    before = snap(x)
    apply(op, x)
    return snap(x) == before


N_MUT = 8


def mutate(m: int, t) -> None:
    """one mutation through the public API"""
    if not isinstance(t, Tag) and not [c for c in t if isinstance(c, Tag)]:
        # a list without tags: mutate the list itself
        if m % 2 == 0:
            t.append("added")
        else:
            t.insert(0, Tag("hr"))
        return
    root = t if isinstance(t, Tag) else [c for c in t if isinstance(c, Tag)][0]
    nested = [c for c in root.children if isinstance(c, Tag)]
    inner = nested[0] if nested else root
    if m == 0:
        root.append("added", Tag("hr"))
    elif m == 1:
        inner.insert(0, "ins")
    elif m == 2:
        inner.attrs["data-new"] = "v"
    elif m == 3:
        root.add_class("extra")
    elif m == 4:
        root.children[0] = "replaced"
    elif m == 5:
        inner.children.extend(["e1", Tag("i")])
    elif m == 6:
        root.attrs.update({"id": "changed"}, title=None, lang="zz")
    else:
        root.children.pop()
        inner.remove_class("x").add_style("a:b;")


def _tagify_body(k: int, m: int, which: int) -> bool:
    x = shape(k)
    t = x.tagify()
    expands = k in (5,)
    bare_meta = k in (1,)      # a bare MetadataNode() has no value equality; only dependencies are compared by value
    if not expands and not bare_meta and not (t == x):
        return False
    # fixed point
    if (not bare_meta and not (t.tagify() == t)) or snap(t.tagify(), False) != snap(t, False):
        return False
    # no tag, child list, attribute map or metadata node is shared
    if identities(x) & identities(t):
        return False
    a, b = (t, x) if which == 0 else (x, t)
    keep = snap(b)
    mutate(m, a)
    return snap(b) == keep


@harness("C08", pre=lambda B, k, m, which: 0 <= k < N_SHAPE and 0 <= m < N_MUT and 0 <= which <= 1,
         shard={"k": range(N_SHAPE)},
         sel=["k: tree shape", "m: one of 8 public mutations (append, insert, attribute assignment, add_class, child replacement, extend, attrs.update, pop/remove_class/add_style)",
              "which: mutate the copy or the original"],
         targets=["htmltools._core.Tag.tagify", "htmltools._core.TagList.tagify", "htmltools._core.Tag.__copy__"])
def h_tagify_copy(k: int, m: int, which: int) -> bool:
    """tagify() equals the original when nothing expands, is a fixed point, shares nothing mutable, so mutating either never affects the other"""
    return concrete(_tagify_body, conc(k, 0, N_SHAPE - 1), conc(m, 0, N_MUT - 1), conc(which, 0, 1))


_STRS = ["t", "&<\"'>", "a\nb", ""]


def _forms_body(k: int, sv: int, mode: int) -> bool:
    import htmltools
    x = shape(k, _STRS[sv])
    if mode == 1:
        # also when some other object was rendered in "json" mode before and the mode was restored
        htmltools.html_dependency_render_mode = "json"
        try:
            str(shape(0))
        finally:
            htmltools.html_dependency_render_mode = "invisible"
    a = str(x)
    return a == repr(x) and a == x._repr_html_() and a == x.render()["html"]


@harness("C08", pre=lambda B, k, sv, mode: 0 <= k < N_SHAPE and 0 <= sv < len(_STRS) and 0 <= mode <= 1,
         shard={"k": range(N_SHAPE)},
         sel=["k: tree shape", "sv: text/attribute string from a hostile catalogue", "mode: plain / after a json-mode rendering elsewhere"],
         targets=["htmltools._core._render_tag_or_taglist"])
def h_str_forms(k: int, sv: int, mode: int) -> bool:
    """str(x), repr(x), x._repr_html_() and x.render()['html'] are the same string (default dependency render mode)"""
    return concrete(_forms_body, conc(k, 0, N_SHAPE - 1), conc(sv, 0, len(_STRS) - 1), conc(mode, 0, 1))


N_DIFF = 12


def _pair(d: int, v: str):
    """two objects that differ in exactly one respect (v != 'v0' is a symbolic replacement text)"""
    def base():
        return Tag("div", {"id": "i", "title": "v0"}, "v0", Tag("span", "v0", _add_ws=False), HTMLDependency("d", "1.0"))
    a, b = base(), base()
    if d == 0:
        b = Tag("section", {"id": "i", "title": "v0"}, "v0", Tag("span", "v0", _add_ws=False), HTMLDependency("d", "1.0"))
    elif d == 1:
        b = Tag("div", {"id": "i", "title": "v0"}, "v0", Tag("span", "v0", _add_ws=False), HTMLDependency("d", "1.0"), _add_ws=False)
    elif d == 2:
        b.attrs["extra"] = v
    elif d == 3:
        del b.attrs["title"]
    elif d == 4:
        b.attrs["title"] = v
    elif d == 5:
        b.children[0] = v
    elif d == 6:
        b.append(v)
    elif d == 7:
        b.children[1].children[0] = v
    elif d == 8:
        b.children[2] = HTMLDependency("d", "1.1")
    elif d == 9:
        a, b = TagList("v0", Tag("p")), Tag("div", "v0", Tag("p"))
    elif d == 10:
        a, b = HTMLDependency("d", "1.0", script={"src": "v0"}), HTMLDependency("d", "1.0", script={"src": v})
    else:
        a, b = TagList("v0", Tag("p")), TagList(Tag("p"), "v0")
    return a, b


@harness("C08", pre=lambda B, d, v: 0 <= d < N_DIFF and len(v) <= B["L"] and v != "v0", bounds={"quick": {"L": 2}, "thorough": {"L": 3}},
         shard={"d": range(N_DIFF)},
         sym=["v: replacement text / attribute value, any str != 'v0', len <= L"],
         sel=["d: the single difference (tag name, whitespace flag, attribute added / removed / changed, child text, extra child, nested text, dependency version, "
              "Tag vs TagList, dependency payload, child order)"],
         targets=["htmltools._core._equals_impl"], timeout={"quick": 300, "thorough": 1500})
def h_equality(d: int, v: str) -> bool:
    """== is true for structurally identical objects and false for objects that differ in one respect"""
    a, b = _pair(d, v)
    a2, _ = _pair(d, v)
    if not (a == a2) or (a != a2):
        return False
    return not (a == b) and not (b == a) and (a != b)
