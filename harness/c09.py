"""C09 Tagifiable objects render as their expansion, spliced in place."""
from __future__ import annotations

from htmltools import HTML, HTMLDependency, HTMLDocument, Tag, TagList

from engine.api import conc, concrete, harness, pick
from oracles.util import TF

N_KIND = 15


class TFR(TF):
    """tagifiable that is also self-rendering"""

    def _repr_html_(self):
        return "<self-rendered/>"


def slot(kind: int, i: int):
    """Returns (object placed in the tree, list of nodes it must be equivalent to)."""
    t = "s" + str(i)
    if kind == 0:
        return None, []
    if kind == 1:
        return t, [t]
    if kind == 2:
        b = Tag("p", t)
        return b, [b]
    if kind == 3:
        return TF(TagList()), []
    if kind == 4:
        one = Tag("b", t, _add_ws=False)
        return TF(TagList(one)), [one]
    if kind == 5:
        tg = Tag("div", t)
        return TF(TagList(t + "<", tg, HTML("<i>" + t + "</i>"))), [t + "<", tg, HTML("<i>" + t + "</i>")]
    if kind == 6:
        tg = Tag("span", t, _add_ws=False)
        return TF(tg), [tg]
    if kind == 7:
        return TF(t + "&"), [t + "&"]
    if kind == 8:
        return TF(HTML("<u>" + t + "</u>")), [HTML("<u>" + t + "</u>")]
    if kind == 9:
        d = HTMLDependency("dep" + str(i), "1." + str(i), head="<!--" + t + "-->")
        return TF(d), [d]
    if kind == 10:
        # expansion that itself contains another tagifiable's (already tagified) expansion
        inner = TF(TagList("in" + t, Tag("em", "x", _add_ws=False)))
        outer = Tag("section", "o", inner, HTMLDependency("nested" + str(i), "2.0"))
        return TF(outer.tagify()), [Tag("section", "o", "in" + t, Tag("em", "x", _add_ws=False), HTMLDependency("nested" + str(i), "2.0"))]
    if kind == 11:
        d = HTMLDependency("same", "1." + str(i))
        return TF(TagList(d, Tag("hr"))), [d, Tag("hr")]
    if kind == 13:
        d = HTMLDependency("only" + str(i), "3.0")
        return TF(TagList(d)), [d]
    if kind == 14:
        blk = Tag("div", Tag("p", t), "x")
        return TF(TagList(blk)), [blk]
    # a tag that holds tagifiable children itself (Tag.tagify recursion)
    return Tag("ul", TF(TagList(Tag("li", t), "mid")), Tag("li", TF("deep" + t), Tag("b", TF(TagList())))), \
        [Tag("ul", Tag("li", t), "mid", Tag("li", "deep" + t, Tag("b")))]


N_WRAP = 7


def wrap(w: int, items):
    if w == 0:
        return TagList(*items)
    if w == 1:
        return Tag("div", *items, id="w")
    if w == 2:
        return Tag("div", "lead", Tag("span", *items, _add_ws=False))
    if w == 3:
        return HTMLDocument(*items, lang="en")
    if w == 4:
        return HTMLDocument(Tag("body", *items))
    if w == 5:
        return HTMLDocument(Tag("html", Tag("head", Tag("title", "t")), Tag("body", *items)), lang="en")
    return HTMLDocument(Tag("html", Tag("body", Tag("div", *items))))


def _dep_names(r):
    return [d.name + "-" + str(d.version) for d in r["dependencies"]]


def _splice_body(w: int, k0: int, k1: int, k2: int, k3: int) -> bool:
    objs, exps = [], []
    for i, k in enumerate((k0, k1, k2, k3)):
        o, e = slot(k, i)
        if o is not None:
            objs.append(o)
        exps.extend(e)
    a = wrap(w, objs).render()
    b = wrap(w, exps).render()
    if a["html"] != b["html"] or _dep_names(a) != _dep_names(b):
        return False
    if w in (0, 1, 2):
        x = wrap(w, objs)
        return str(x) == b["html"] and x.tagify().get_html_string() == b["html"]
    return True


def _pre_splice(B, w, k0, k1, k2, k3):
    for k in (k0, k1, k2):
        if not (0 <= k < N_KIND):
            return False
    if B["FOUR"]:
        if not (0 <= k3 < N_KIND):
            return False
    elif k3 != 0:
        return False
    return 0 <= w < N_WRAP


@harness("C09", pre=_pre_splice, bounds={"quick": {"FOUR": False}, "thorough": {"FOUR": True}},
         shard={"w": range(N_WRAP), "k0": range(N_KIND)},
         sel=["w: wrapper (TagList, block tag, inline inside block, HTMLDocument, HTMLDocument with a <body>, with the user's own <html> with and without <head>)",
              "k0..k3: sibling slots: absent / text / block tag / tagifiable expanding to TagList of length 0, 1, 3 / Tag / str / HTML() / dependency / "
              "expansion containing another expansion / dependency + tag / tag holding tagifiable children / one-element TagList with a dependency or a multi-line block"],
         targets=["htmltools._core.TagList.tagify", "htmltools._core.Tag.tagify", "htmltools._core.TagList.render", "htmltools._core.Tag.render"],
         timeout={"quick": 200, "thorough": 1500},
         outside="more than 4 sibling slots; expansions other than the 13 listed kinds")
def h_splice(w: int, k0: int, k1: int, k2: int, k3: int) -> bool:
    """render() == render() of the tree with every tagifiable object replaced by its expansion (html and dependencies)"""
    return concrete(_splice_body, conc(w, 0, N_WRAP - 1), conc(k0, 0, N_KIND - 1), conc(k1, 0, N_KIND - 1), conc(k2, 0, N_KIND - 1), conc(k3, 0, N_KIND - 1))


N_PLACE = 7


def _place(p: int, obj):
    if p == 0:
        return Tag("div", obj)
    if p == 1:
        return TagList(obj, "a", Tag("p"))
    if p == 2:
        return TagList("a", obj, Tag("p"))
    if p == 3:
        return TagList(Tag("p"), "a", obj)
    if p == 4:
        return Tag("div", Tag("span", "x", obj, _add_ws=False))
    if p == 5:
        return Tag("span", Tag("p"), obj, _add_ws=False)
    return Tag("script", "var x;", obj)


def _unexp_body(p: int, kind: int) -> bool:
    if kind == 0:
        x = _place(p, TF("expansion"))
        try:
            out = x.get_html_string()
        except RuntimeError:
            return True
        except Exception:
            return True     # any error is acceptable; emitting something is not
        return False
    if kind == 1:
        out = _place(p, TFR("expansion")).get_html_string()
        return "<self-rendered/>" in out and "expansion" not in out
    # render() expands first, so the same tree renders
    out = _place(p, TF("expansion")).render()["html"]
    return "expansion" in out


@harness("C09", pre=lambda B, p, kind: 0 <= p < N_PLACE and 0 <= kind <= 2,
         shard={"kind": range(3)},
         sel=["p: 7 positions (only child, first/middle/last of a list, inside inline in block, after a block inside inline, inside <script>)",
              "kind: un-expanded object / object that is also self-rendering / same tree through render()"],
         targets=["htmltools._core.TagList.get_html_string"])
def h_unexpanded(p: int, kind: int) -> bool:
    """asking for markup from a tree that still contains an un-expanded object raises instead of emitting anything for it"""
    return concrete(_unexp_body, conc(p, 0, N_PLACE - 1), conc(kind, 0, 2))


@harness("C09", pre=lambda B, k, w, t: 0 <= k <= 4 and 0 <= w <= 2 and len(t) <= B["L"], bounds={"quick": {"L": 2}, "thorough": {"L": 3}},
         shard={"k": range(5), "w": range(3)},
         sym=["t: text inside the expansion, str over all code points, len <= L"],
         sel=["k: expansion kind (str, HTML(), TagList of text+tag, Tag, empty TagList next to the text)", "w: wrapper (block tag, list, inline in block)"],
         targets=["htmltools._core.TagList.tagify", "htmltools._core.Tag.render"], timeout={"quick": 300, "thorough": 1500})
def h_splice_sym(k: int, w: int, t: str) -> bool:
    """the same equivalence with arbitrary text in the expansion"""
    if k == 0:
        obj, exp = TF(t), [t]
    elif k == 1:
        obj, exp = TF(HTML(t)), [HTML(t)]
    elif k == 2:
        obj, exp = TF(TagList(t, Tag("b", t, _add_ws=False))), [t, Tag("b", t, _add_ws=False)]
    elif k == 3:
        obj, exp = TF(Tag("p", t)), [Tag("p", t)]
    else:
        obj, exp = TF(TagList()), []
    a = wrap(w, ["lead<", obj, t]).render()["html"]
    b = wrap(w, ["lead<", *exp, t]).render()["html"]
    return a == b
