"""C10 Dependencies are validated, then resolve one per name to the highest version."""
from __future__ import annotations

from packaging.version import Version

from htmltools import HTMLDependency, Tag, TagList

from engine.api import conc, concrete, harness, pick

_V0 = Version("0")
_NAMES = ["alpha", "beta", "gamma"]


def _mk(name: str, a: int, b: int, three: int, tag: int) -> HTMLDependency:
    """dependency `name` with version 1.a (three == 0) or 1.a.b (three == 1), built from solver integers"""
    rel = (1, a, b) if three == 1 else (1, a)
    return HTMLDependency(name, _V0.__replace__(release=rel), head="<!--" + str(tag) + "-->")


def _key(a: int, b: int, three: int):
    # PEP 440: 1.a == 1.a.0 ; ordering is numeric per component
    return (a, b if three == 1 else 0)


def spec_resolve(items):
    """items: [(name, key, obj)] in document order -> objects: one per name (first-occurrence order),
    the one with the highest key, the earliest on ties."""
    order = []
    best = {}
    for name, key, obj in items:
        if name not in best:
            order.append(name)
            best[name] = (key, obj)
        elif key > best[name][0]:
            best[name] = (key, obj)
    return [best[n][1] for n in order]


def _same(xs, ys) -> bool:
    if len(xs) != len(ys):
        return False
    for x, y in zip(xs, ys):
        if x is not y:
            return False
    return True


def _pre_res(B, n0, n1, n2, n3, a0, a1, a2, a3, b0, b1, b2, b3, t0, t1, t2, t3):
    for n in (n0, n1, n2, n3):
        if not (0 <= n <= 2):
            return False
    for a in (a0, a1, a2, a3):
        if not (0 <= a <= B["A"]):
            return False
    for b in (b0, b1, b2, b3):
        if not (0 <= b <= 1):
            return False
    for t in (t0, t1, t2, t3):
        if not (0 <= t <= 1):
            return False
    if B["N"] < 4 and not (n3 == 0 and a3 == 0 and b3 == 0 and t3 == 0):
        return False
    return n0 == 0  # wlog: the first dependency carries the first name


@harness("C10", pre=_pre_res,
         bounds={"quick": {"A": 12, "N": 3}, "thorough": {"A": 120, "N": 4}},
         shard=lambda B: [{"n1": x, "n2": y, "t0": t, "t1": u} for x in range(3) for y in range(3) for t in range(2) for u in range(2)],
         sym=["a0..a3: second version component, int in [0, A] (A=120 puts 9/10 and 99/100 inside the bound)", "b0..b3: third component in {0,1}"],
         sel=["n1..n3: names from 3", "t0..t3: two- or three-component version", "N dependencies"],
         targets=["htmltools._core.TagList.get_dependencies"],
         timeout={"quick": 200, "thorough": 2400},
         outside="more than N dependencies, versions outside 1.a[.b] (pre-releases, epochs), second component above A")
def h_resolve(n0: int, n1: int, n2: int, n3: int, a0: int, a1: int, a2: int, a3: int,
              b0: int, b1: int, b2: int, b3: int, t0: int, t1: int, t2: int, t3: int) -> bool:
    ns = (n0, n1, n2, n3)
    As = (a0, a1, a2, a3)
    Bs = (b0, b1, b2, b3)
    Ts = (t0, t1, t2, t3)
    cnt = 4 if not (n3 == 0 and a3 == 0 and b3 == 0 and t3 == 0) else 3
    deps = []
    items = []
    for i in range(cnt):
        nm = pick(ns[i], _NAMES)
        d = _mk(nm, As[i], Bs[i], Ts[i], i)
        deps.append(d)
        items.append((nm, _key(As[i], Bs[i], Ts[i]), d))
    want = spec_resolve(items)
    got = TagList(*deps).get_dependencies()
    if not _same(got, want):
        return False
    # idempotent; dedup=False keeps everything in order
    if not _same(TagList(*got).get_dependencies(), want):      # resolving the resolved list changes nothing
        return False
    return _same(TagList(*deps).get_dependencies(dedup=False), deps)


_POS = 6


def _tree(deps, ps):
    """Place deps[i] at position ps[i] of a fixed tree; returns (root TagList, document-order list)."""
    slots = [[] for _ in range(_POS)]
    for d, p in zip(deps, ps):
        slots[p].append(d)
    inner = Tag("span", *slots[2], "t", _add_ws=False)
    div = Tag("div", *slots[1], inner, Tag("p", *slots[3]), *slots[4])
    root = TagList(*slots[0], div, [None, slots[5]])
    order = []
    for sl in slots:
        order.extend(sl)
    return root, div, order


@harness("C10", pre=lambda B, p0, p1, p2, p3, v: 0 <= p0 < _POS and 0 <= p1 < _POS and 0 <= p2 < _POS and 0 <= v <= 3
         and (0 <= p3 < _POS if B["P3"] else p3 == 3),
         bounds={"quick": {"P3": False}, "thorough": {"P3": True}},
         shard={"p0": range(_POS), "v": range(4)},
         sel=["p0..p3: position of each of four dependencies in a tree (top level before/after, three nesting levels, nested list)",
              "v: version pattern (1.9/1.10/1.10.0/2 permutations)"],
         targets=["htmltools._core.TagList.get_dependencies", "htmltools._core.Tag.get_dependencies", "htmltools._core._resolve_dependencies"])
def h_placement(p0: int, p1: int, p2: int, p3: int, v: int) -> bool:
    """Resolution is independent of where in the tree the objects sit: it is the resolution of the
    document-order list; dedup=False returns that list untouched."""
    vers = pick(v, [("1.9", "1.10", "1.10.0", "1.0"), ("1.10.0", "1.10", "1.9", "3"), ("2", "1.10", "1.9", "1.10"), ("1.9", "1.9", "1.9", "1.9")])
    keys = {"1.9": (9, 0), "1.10": (10, 0), "1.10.0": (10, 0), "1.0": (0, 0), "3": (99, 0), "2": (50, 0)}
    names = pick(v, [("alpha", "alpha", "alpha", "alpha"), ("alpha", "alpha", "alpha", "beta"),
                     ("alpha", "beta", "alpha", "beta"), ("alpha", "alpha", "alpha", "alpha")])
    deps = [HTMLDependency(names[i], vers[i], head="<!--" + str(i) + "-->") for i in range(4)]
    root, div, order = _tree(deps, (p0, p1, p2, p3))
    want = spec_resolve([(d.name, keys[vers[deps.index(d)]], d) for d in order])
    if not _same(root.get_dependencies(), want):
        return False
    if not _same(root.get_dependencies(dedup=False), order):
        return False
    if v == 0:
        r = root.render()
        if [d.name + str(d.version) for d in r["dependencies"]] != [d.name + str(d.version) for d in want]:
            return False
        if "<!--" in r["html"]:
            return False
    sub = [d for d in order if d in div.get_dependencies(dedup=False)]
    return _same(div.get_dependencies(dedup=False), sub)


@harness("C10", pre=lambda B, q0, q1, q2, c: 0 <= q0 < _POS and 0 <= q1 < _POS and 0 <= q2 < _POS and 0 <= c <= 4,
         shard={"c": range(5)},
         sel=["q0, q1: the two positions at which ONE object (by identity) sits in the tree", "q2: position of an unrelated dependency",
              "c: what the shared object is (a tag holding dependencies at two levels, a TagList, a plain list, a tuple, a bare dependency)"],
         targets=["htmltools._core.TagList.get_dependencies", "htmltools._core.Tag.get_dependencies", "htmltools._core._resolve_dependencies"],
         outside="an object shared at more than two positions")
def h_shared(q0: int, q1: int, q2: int, c: int) -> bool:
    """Collection is by position, not by object: a subtree object that occurs at two positions contributes its
    dependencies at both (dedup=False drops nothing), and the resolved list is that of the document-order list."""
    return concrete(_shared_body, conc(q0, 0, _POS - 1), conc(q1, 0, _POS - 1), conc(q2, 0, _POS - 1), conc(c, 0, 4))


def _shared_body(q0: int, q1: int, q2: int, c: int) -> bool:
    a = HTMLDependency("alpha", "1.9", head="<!--a-->")
    b = HTMLDependency("beta", "1.10", head="<!--b-->")
    x = HTMLDependency("alpha", "1.10", head="<!--x-->")
    if c == 0:
        card = Tag("section", a, Tag("span", b, "t"))
    elif c == 1:
        card = TagList(a, Tag("em", b))
    elif c == 2:
        card = [a, [b]]
    elif c == 3:
        card = (a, Tag("em", b))
    else:
        card = a
    inside = [a, b] if c < 4 else [a]
    slots = [[] for _ in range(_POS)]
    exp = [[] for _ in range(_POS)]
    slots[q0].append(card); exp[q0].extend(inside)
    slots[q2].append(x); exp[q2].append(x)
    slots[q1].append(card); exp[q1].extend(inside)
    inner = Tag("span", *slots[2], "t", _add_ws=False)
    div = Tag("div", *slots[1], inner, Tag("p", *slots[3]), *slots[4])
    root = TagList(*slots[0], div, [None, slots[5]])
    order = []
    for sl in exp:
        order.extend(sl)
    if not _same(root.get_dependencies(dedup=False), order):
        return False
    if not _same(Tag("main", root).get_dependencies(dedup=False), order):
        return False
    keys = {id(a): (9, 0), id(b): (10, 0), id(x): (10, 0)}
    want = spec_resolve([(d.name, keys[id(d)], d) for d in order])
    if not _same(root.get_dependencies(), want):
        return False
    # render() works on a tagified copy, so its dependency objects are copies: compare by content
    return [(d.name, str(d.version), str(d.head)) for d in root.render()["dependencies"]] == [(d.name, str(d.version), str(d.head)) for d in want]


@harness("C10", pre=lambda B, k, g: 0 <= k <= 13 and g == k // 5, shard={"g": range(3)}, sel=["k: malformed / single-item definitions"],
         targets=["htmltools._core.HTMLDependency.__init__", "htmltools._core.HTMLDependency._validate_dict"])
def h_validate(k: int, g: int) -> bool:
    """Malformed definitions are rejected at construction; single item == one-element list."""
    bad = [
        dict(source="lib/"),
        dict(source=["subdir", "x"]),
        dict(source={"package": "p"}),
        dict(script="a.js"),
        dict(script=["a.js"]),
        dict(script={"async": ""}),
        dict(script=[{"src": "a.js"}, {"defer": ""}]),
        dict(stylesheet={"rel": "stylesheet"}),
        dict(stylesheet=[{"href": "a.css"}, "b.css"]),
        dict(meta={"name": "n"}),
        dict(meta={"content": "c"}),
        dict(meta=[{"name": "n", "content": "c"}, {"name": "n"}]),
    ]
    if k < 12:
        try:
            HTMLDependency("d", "1.0", **pick(k, bad))
        except Exception:
            return True
        return False
    if k == 12:
        a = HTMLDependency("d", "1.0", source={"subdir": "s"}, script={"src": "a.js"}, stylesheet={"href": "a.css"},
                           meta={"name": "n", "content": "c"})
        b = HTMLDependency("d", "1.0", source={"subdir": "s"}, script=[{"src": "a.js"}], stylesheet=[{"href": "a.css"}],
                           meta=[{"name": "n", "content": "c"}])
        return a == b and a.as_dict() == b.as_dict() and str(a.as_html_tags()) == str(b.as_html_tags())
    ok = HTMLDependency("d", "1.0", source={"href": "http://x"}, script=[], stylesheet=[], meta=[])
    return ok.script == [] and ok.source == {"href": "http://x"} and HTMLDependency("d", "1.0", source=None).source is None
