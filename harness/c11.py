"""C11 HTMLDocument builds one head/body and hoists every dependency into head."""
from __future__ import annotations

from htmltools import HTMLDependency, HTMLDocument, Tag, TagList, head_content

from engine.api import conc, concrete, harness, pick
from oracles.document import norm_attr_order, spec_document

N_SHAPE = 10
N_POOL = 7
N_POS = 5
_CFG = [(None, "lib", True), ({"lang": "en"}, None, False), ({"lang": "en", "class_": 'c"<'}, "a/b", False),
        ({"data_x": True}, None, True), (None, "lib", False), ({"data_x": True}, "a/b", True), ({"lang": "q"}, "lib/", True)]


def pool(i: int):
    if i == 0:
        return None
    if i == 1:
        return HTMLDependency("alpha", "1.9", source={"subdir": "src/alpha"}, script={"src": "a.js"},
                              stylesheet={"href": "a.css"}, meta={"name": "m", "content": "c<"})
    if i == 2:
        return HTMLDependency("alpha", "1.10", source={"subdir": "src/alpha"}, script=[{"src": "a2.js"}, {"src": "b c.js", "defer": ""}],
                              stylesheet=[{"href": "a2.css"}, {"href": "d/e f.css", "media": "all"}], head="<!--a2-->")
    if i == 3:
        return HTMLDependency("beta", "2.0", source={"href": "http://cdn/x/"}, script={"src": "b.js", "async": ""},
                              stylesheet=[{"href": "s#1.css", "media": "print"}])
    if i == 4:
        return head_content(Tag("title", "T"))
    if i == 5:
        return head_content(Tag("title", "T"), None)     # equal content -> same name -> included once
    return HTMLDependency("gamma", "0.1", head=TagList(Tag("link", rel="icon", href="i.png"), "text<"))


def build(shape: int, d: list, pos: list):
    """content for HTMLDocument as a list of top-level arguments; dependencies d[j] at position pos[j]"""
    at = [[] for _ in range(N_POS)]
    for dep, p in zip(d, pos):
        if dep is not None:
            at[p].append(dep)
    div = Tag("div", "txt", *at[2], Tag("span", "in", *at[4], _add_ws=False), id="main")
    body_kids = [*at[1], div, Tag("p", "para")]
    if shape in (0, 7):
        return [*at[3], *body_kids, *at[0]]
    if shape == 1:
        return [TagList(*at[3], *body_kids, [at[0]])]
    if shape == 2:
        return [Tag("body", *at[3], *body_kids, *at[0], class_="b")]
    if shape == 3:
        return [Tag("html", Tag("head", Tag("title", "user"), *at[0]), Tag("body", *body_kids), *at[3], lang="xx")]
    if shape == 4:
        return [Tag("html", *at[3], Tag("body", *body_kids, *at[0]))]
    if shape == 5:
        return [Tag("html", Tag("body", *body_kids), Tag("head", *at[0], Tag("meta", name="u"), id="uh", class_="k"), *at[3])]
    if shape == 6:
        return [Tag("html", *at[3], Tag("head", Tag("style", "x{}"), _add_ws=False), Tag("body", *body_kids, *at[0]), id="h")]
    if shape == 8:
        return [Tag("html", Tag("head", *at[0], *at[1], *at[2], *at[3], *at[4]))]
    return [Tag("body", *body_kids), Tag("body", *at[0], *at[3])]     # two <body> tags: not a sole body -> wrapped


def _doc_body(shape: int, i0: int, p0: int, i1: int, p1: int, cfg: int) -> bool:
    attrs, prefix, iv = _CFG[cfg]
    attrs = attrs or {}
    d = [pool(i0), pool(i1)]
    content = build(shape, d, [p0, p1])
    if shape == 7:
        doc = HTMLDocument(**attrs)
        doc.append(*content)
    else:
        doc = HTMLDocument(*content, **attrs)
    r = doc.render(lib_prefix=prefix, include_version=iv)
    flat = list(TagList(*content))
    want_html, want_deps = spec_document(flat, attrs, prefix, iv)
    if r["html"] != want_html and norm_attr_order(r["html"]) != norm_attr_order(want_html):
        return False
    got = r["dependencies"]
    if len(got) != len(want_deps):
        return False
    for g, w in zip(got, want_deps):
        if not (g == w):
            return False
    h = r["html"]
    return h.count("<head") == 1 and h.count("</head>") == 1 and h.count("<html") == 1 and h.count('<meta charset="utf-8"/>') == 1 \
        and h.count("application/html-dependencies") == (1 if want_deps else 0)


@harness("C11", pre=lambda B, shape, i0, p0, i1, p1, cfg: 0 <= shape < N_SHAPE and 0 <= i0 < N_POOL and 0 <= i1 < N_POOL
         and 0 <= p0 < N_POS and 0 <= p1 < N_POS and 0 <= cfg < B["CFG"] and (i0 > 0 or p0 == 0) and (i1 > 0 or p1 == 0),
         bounds={"quick": {"CFG": 4}, "thorough": {"CFG": len(_CFG)}},
         shard={"shape": range(N_SHAPE), "i0": range(N_POOL)},
         sel=["shape: fragment / list / lone <body> / lone <html> with head first, absent, last, middle, only head / appended after construction / two bodies",
              "i0, i1: dependencies from a pool (two versions of one name with script+stylesheet+meta+head, URL source, two equal head_content, markup head)",
              "p0, p1: placement (end, body top, nested, directly under <html>, deep inline / inside the user's <head>)",
              "cfg: html attributes x lib_prefix x include_version"],
         targets=["htmltools._core.HTMLDocument.render", "htmltools._core.HTMLDocument._gen_html_tag_tree", "htmltools._core.HTMLDocument._hoist_head_content",
                  "htmltools._core.HTMLDependency.as_html_tags", "htmltools._core.head_content"],
         outside="a user <html> with two <head> children; dependencies whose own head payload contains further dependencies; more than two dependency objects")
def h_document(shape: int, i0: int, p0: int, i1: int, p1: int, cfg: int) -> bool:
    """full-string comparison with the document the statement prescribes; returned dependency list == resolved list"""
    return concrete(_doc_body, conc(shape, 0, N_SHAPE - 1), conc(i0, 0, N_POOL - 1), conc(p0, 0, N_POS - 1), conc(i1, 0, N_POOL - 1),
                    conc(p1, 0, N_POS - 1), conc(cfg, 0, len(_CFG) - 1))


@harness("C11", pre=lambda B, shape, which, t, v: shape in (0, 2, 3, 4) and 0 <= which <= 1 and len(t) <= B["L"] and len(v) <= B["L"]
         and ((which == 0 and t == "T<") or (which == 1 and v == "en")),
         bounds={"quick": {"L": 2}, "thorough": {"L": 2}},
         shard={"shape": (0, 2, 3, 4), "which": range(2)},
         sym=["t: text in the body and in a dependency's meta content", "v: value of the html attributes (lang, class); str over all code points, len <= L"],
         sel=["shape: fragment / lone <body> / lone <html> with head / lone <html> without head", "which: v symbolic (t fixed) or t symbolic (v fixed)"],
         targets=["htmltools._core.HTMLDocument.render", "htmltools._core.HTMLDocument._hoist_head_content"], timeout={"quick": 300, "thorough": 1500})
def h_document_sym(shape: int, which: int, t: str, v: str) -> bool:
    """the same comparison with arbitrary text and attribute values"""
    d = HTMLDependency("sym", "1.0", meta={"name": "m", "content": t}, head=Tag("title", t))
    body_kids = [Tag("div", t, d, id="main")]
    if shape == 0:
        content = body_kids
    elif shape == 2:
        content = [Tag("body", *body_kids, class_=v)]
    elif shape == 3:
        content = [Tag("html", Tag("head", Tag("title", "user")), Tag("body", *body_kids), lang="xx")]
    else:
        content = [Tag("html", Tag("body", *body_kids))]
    attrs = {"lang": v, "class_": v}
    r = HTMLDocument(*content, **attrs).render(lib_prefix="lib", include_version=True)
    want_html, want_deps = spec_document(list(TagList(*content)), attrs, "lib", True)
    return r["html"] == want_html and len(r["dependencies"]) == 1 and r["dependencies"][0] == d


class Delayed:
    """an object that is not a Tag and yields its content (and any dependency in it) only through tagify()"""

    def __init__(self, kind: int, dep):
        self.kind, self.dep = kind, dep

    def expansion(self):
        if self.kind == 0:
            return Tag("em", "late", self.dep, _add_ws=False)
        if self.kind == 1:
            return TagList(self.dep, "t<", Tag("u", _add_ws=False))
        return self.dep

    def tagify(self):
        return self.expansion()


class DelayedTag(Tag):
    """a Tag subclass whose tagify() adds a dependency that the un-tagified object does not carry"""

    def __init__(self, dep):
        super().__init__("section", "sub")
        self._dep = dep

    def expansion(self):
        return Tag("section", "sub", self._dep)

    def tagify(self):
        return self.expansion().tagify()


def _late(kind: int, dep):
    return DelayedTag(dep) if kind == 3 else Delayed(kind, dep)


def _doc_tagifiable_body(shape: int, kind: int, p0: int, i1: int, p1: int, cfg: int) -> bool:
    attrs, prefix, iv = _CFG[cfg]
    attrs = attrs or {}
    mk = lambda: HTMLDependency("late", "3.1", source={"subdir": "src/late"}, script={"src": "l.js"}, head="<!--late-->")     # noqa: E731
    other = pool(i1)
    obj = _late(kind, mk())
    with_obj = build(shape, [obj, other], [p0, p1])
    expanded = build(shape, [_late(kind, mk()).expansion(), other], [p0, p1])
    docs = []
    for content in (with_obj, expanded):
        if shape == 7:
            doc = HTMLDocument(**attrs)
            doc.append(*content)
        else:
            doc = HTMLDocument(*content, **attrs)
        docs.append(doc.render(lib_prefix=prefix, include_version=iv))
    a, b = docs
    # the document for the tree with the object == the document for the tree with its expansion written out (C09 + C11) ...
    if a["html"] != b["html"] or len(a["dependencies"]) != len(b["dependencies"]):
        return False
    for g, w in zip(a["dependencies"], b["dependencies"]):
        if not (g == w):
            return False
    # ... and that document is the one the statement prescribes: listing, hoisted markup and returned list agree
    want_html, want_deps = spec_document(list(TagList(*expanded)), attrs, prefix, iv)
    if a["html"] != want_html and norm_attr_order(a["html"]) != norm_attr_order(want_html):
        return False
    if [d.name for d in a["dependencies"]] != [d.name for d in want_deps]:
        return False
    h = a["html"]
    return "late[3.1]" in h and h.count("<!--late-->") == 1 and h.index("<!--late-->") < h.index("</head>")


@harness("C11", pre=lambda B, shape, kind, p0, i1, p1, cfg: 0 <= shape < N_SHAPE and 0 <= kind <= 3 and 0 <= p0 < N_POS and i1 in (0, 2, 4)
         and 0 <= p1 < N_POS and cfg in (0, 1) and (i1 > 0 or p1 == 0),
         shard={"shape": range(N_SHAPE), "kind": range(4)},
         sel=["shape: the 10 content shapes of h_document", "kind: a non-Tag object whose tagify() returns a tag holding a dependency / a TagList starting with one / a bare dependency; "
              "a Tag subclass whose tagify() adds one", "p0: where the object sits", "i1, p1: a second, ordinary dependency and its place", "cfg: 2 configurations"],
         targets=["htmltools._core.HTMLDocument._gen_html_tag_tree", "htmltools._core.HTMLDocument._hoist_head_content", "htmltools._core.HTMLDocument.render",
                  "htmltools._core.TagList.tagify"],
         outside="objects whose tagify() result depends on how often it is called")
def h_document_tagifiable(shape: int, kind: int, p0: int, i1: int, p1: int, cfg: int) -> bool:
    """dependencies that exist only after tagify() are listed, hoisted once and returned like any other, for every document shape"""
    return concrete(_doc_tagifiable_body, conc(shape, 0, N_SHAPE - 1), conc(kind, 0, 3), conc(p0, 0, N_POS - 1), conc(i1, 0, N_POOL - 1),
                    conc(p1, 0, N_POS - 1), conc(cfg, 0, 1))
