"""C12 Dependency URLs and copied files agree."""
from __future__ import annotations

import os
import shutil
import tempfile
import urllib.parse

from htmltools import HTMLDependency, HTMLDocument, Tag, TagList

from engine.api import conc, concrete, harness, pick
from engine.stubs import quote_model as qm

qm.validate()     # the stub is compared with the real urllib.parse.quote before any solving; failure = harness error


def _rel_ok(p: str) -> bool:
    """a relative path: non-empty, no leading or trailing '/', no empty segment (the statement's 'relative path')"""
    n = len(p)
    if n == 0 or p[0] == "/" or p[n - 1] == "/":
        return False
    for i in range(n - 1):
        if p[i] == "/" and p[i + 1] == "/":
            return False
    for ch in p:
        c = ord(ch)
        if 0xD800 <= c <= 0xDFFF:
            return False      # lone surrogates are not encodable (quote raises)
    return True


_PREFIX = [None, "lib", "a/b", "lib/"]


def _pre_url(B, p, kind, pf, iv):
    # thorough: three characters for URL sources (8 shards, each discharged in < 40 min of CPU), two for local sources
    # (a three-character local-source shard explored 3500 paths in 4000 s without finishing)
    lim = B["L"] + (1 if (B["L3"] and kind in (2, 3)) else 0)
    return len(p) <= lim and _rel_ok(p) and 0 <= kind <= 3 and 0 <= pf <= 3 and 0 <= iv <= 1


@harness("C12", pre=_pre_url,
         bounds={"quick": {"L": 2, "L3": False}, "thorough": {"L": 2, "L3": True}},
         shard={"kind": range(4), "pf": range(4)},
         sym=["p: relative file path, str over all code points (no empty segment, no lone surrogate), len <= L"],
         sel=["kind: local directory source / package source / URL source without and with trailing slash", "pf: lib_prefix None, 'lib', 'a/b', 'lib/'", "iv: include_version"],
         targets=["htmltools._core.HTMLDependency.as_dict", "htmltools._core.HTMLDependency.source_path_map"],
         stubs=["urllib.parse.quote replaced by engine/stubs/quote_model.py (validated against the real function on every run)",
                "htmltools._core.package_dir replaced by a pure function in h_url_format (the real one is exercised by h_copy)"],
         timeout={"quick": 300, "thorough": 3000},
         outside="dependency names needing percent-encoding (the statement puts the name in the URL raw); paths longer than L")
def h_url_format(p: str, kind: int, pf: int, iv: int) -> bool:
    """each script/stylesheet URL is prefix/name[-version]/percent-encoded path for a local source and href/path for a URL source"""
    prefix = pick(pf, _PREFIX)
    inc = iv == 1
    if kind == 0:
        src = {"subdir": "some/dir"}
    elif kind == 1:
        src = {"package": "htmltools", "subdir": "lib"}
    elif kind == 2:
        src = {"href": "https://cdn.example/x"}
    else:
        src = {"href": "https://cdn.example/x/"}
    d = HTMLDependency("nm", "1.2.3", source=src, script=[{"src": p, "defer": ""}, {"src": "fixed file.js"}], stylesheet={"href": p})
    import htmltools._core as core
    saved_pd = core.package_dir
    core.package_dir = lambda pkg: "/site-packages/" + pkg      # stub: the real one imports the package and touches a temp dir
    try:
        with qm.patched_quote():
            got = d.as_dict(lib_prefix=prefix, include_version=inc)
            m = d.source_path_map(lib_prefix=prefix, include_version=inc)
    finally:
        core.package_dir = saved_pd
    if kind == 1 and m["source"] != "/site-packages/htmltools/lib":
        return False
    enc = qm.quote_model(p)
    if kind <= 1:
        base = "nm" + ("-1.2.3" if inc else "")
        if prefix is not None:
            base = ("lib/" if pf != 2 else "a/b/") + base
    else:
        base = "https://cdn.example/x"
    if m["href"] != (base if kind <= 1 or kind == 2 else base + "/"):
        return False
    want = base + "/" + enc
    return got["script"][0] == {"src": want, "defer": ""} and got["script"][1] == {"src": base + "/fixed%20file.js"} \
        and got["stylesheet"] == [{"href": want, "rel": "stylesheet"}] and got["name"] == "nm" and got["version"] == "1.2.3" \
        and d.script[0]["src"] == p and d.stylesheet[0]["href"] == p


# ---------------------------------------------------------------------------
# save_html / copy_to on the real file system (scratch directory per path, removed afterwards)

_FILES = ["a.js", "sp ace.js", "p%41.js", "h#1.css", "q?x.css", "é☃.js", "sub/n.js", "sub/deep/x y.css", ".vendor/theme.css"]
_LIBDIR = [None, "lib", "a/b"]


def _write(path: str, content: str) -> None:
    os.makedirs(os.path.dirname(path), exist_ok=True)
    with open(path, "w", encoding="utf-8") as f:
        f.write(content)


def _read(path: str) -> str:
    with open(path, encoding="utf-8") as f:
        return f.read()


def _tree(root: str):
    out = {}
    for dp, _, fs in os.walk(root):
        for f in fs:
            full = os.path.join(dp, f)
            out[os.path.relpath(full, root)] = _read(full)
    return out


def _copy_body(f0: int, f1: int, lib: int, iv: int, allf: int, stale: int, missing: int, recv: int, srck: int) -> bool:
    tmp = tempfile.mkdtemp(prefix="vf-c12-")
    try:
        srcdir = os.path.join(tmp, "src dir")
        names = [_FILES[f0], _FILES[f1]]
        extra = ["extra.txt", "sub/other.bin", "deep/er/z.js", ".nojekyll", ".cfg/inner/.keep", "~tmp#"]
        for n in names + extra:
            _write(os.path.join(srcdir, n), "content of " + n)
        if missing == 1:
            os.remove(os.path.join(srcdir, names[0]))
        elif missing == 2 and names[1] != names[0]:
            os.remove(os.path.join(srcdir, names[1]))
        elif missing == 2:
            missing = 0
        libdir = _LIBDIR[lib]
        inc = iv == 1
        if srck == 0:
            dep = HTMLDependency("dep", "1.0", source={"subdir": srcdir}, script={"src": names[0]}, stylesheet=[{"href": names[1]}],
                                 all_files=(allf == 1))
        elif srck == 1:
            dep = HTMLDependency("dep", "1.0", source={"href": "https://cdn/x"}, script={"src": names[0]}, all_files=(allf == 1))
        else:
            dep = HTMLDependency("dep", "1.0", script={"src": names[0]}, head="<!--h-->")
        other = HTMLDependency("other", "2.0", source={"package": "htmltools", "subdir": "lib/react"}, script={"src": "react.production.min.js"})
        outdir = os.path.join(tmp, "out")
        os.makedirs(outdir)
        file = os.path.join(outdir, "index.html")
        destroot = os.path.join(outdir, libdir) if libdir else outdir
        target = os.path.join(destroot, "dep" + ("-1.0" if inc else ""))
        if stale == 1:
            _write(os.path.join(target, "stale.txt"), "old")
            _write(os.path.join(target, names[0]), "old content")
        content = Tag("div", "x", other, dep)
        recvobj = [HTMLDocument(content), content, TagList(content)][recv]
        before = _tree(srcdir)
        try:
            ret = recvobj.save_html(file, libdir=libdir, include_version=inc)
        except Exception:
            # legitimate only if a listed file is missing (and all_files is not set) for a local source
            if not (srck == 0 and allf == 0 and missing != 0):
                return False
            # the target directory of that dependency is untouched
            if stale == 1:
                return _tree(target) == {"stale.txt": "old", names[0]: "old content"} and _tree(srcdir) == before
            return not os.path.exists(target) and _tree(srcdir) == before
        if srck == 0 and allf == 0 and missing != 0:
            return False
        if ret != file or not os.path.isfile(file) or _tree(srcdir) != before:
            return False
        html = _read(file)
        d = dep.as_dict(lib_prefix=libdir, include_version=inc)
        urls = [s["src"] for s in d["script"]] + [s["href"] for s in d["stylesheet"]]
        if srck != 0:
            # URL-sourced and source-less dependencies copy nothing
            return not os.path.exists(target) if stale == 0 else _tree(target) == {"stale.txt": "old", names[0]: "old content"}
        base = ((libdir + "/") if libdir else "") + "dep" + ("-1.0" if inc else "")
        for u, n in zip(urls, names):
            if u != base + "/" + urllib.parse.quote(n):      # prefix/name[-version]/percent-encoded relative path
                return False
            if u not in html and u.replace("&", "&amp;").replace("'", "&apos;") not in html:
                return False
            local = os.path.normpath(os.path.join(os.path.dirname(file), urllib.parse.unquote(u)))
            if not os.path.isfile(local) or _read(local) != "content of " + n:
                return False
            if not local.startswith(target + os.sep):
                return False
        got = _tree(target)
        if "stale.txt" in got:
            return False
        if allf == 1:
            return got == before
        return got == {n: "content of " + n for n in names}
    finally:
        shutil.rmtree(tmp, ignore_errors=True)


def _pre_copy(B, f0, f1, lib, iv, allf, stale, missing, recv, srck):
    n = len(_FILES)
    return 0 <= f0 < n and 0 <= f1 < n and 0 <= lib <= 2 and 0 <= iv <= 1 and 0 <= allf <= 1 and 0 <= stale <= 1 and 0 <= missing <= 2 \
        and 0 <= recv <= 2 and 0 <= srck <= 2 and (srck == 0 or (missing == 0 and f1 == 0)) and (allf == 0 or missing == 0) and (B["ALL"] or (recv == (f0 + f1) % 3))


@harness("C12", pre=_pre_copy, bounds={"quick": {"ALL": False}, "thorough": {"ALL": True}},
         shard={"f0": range(len(_FILES)), "lib": range(3)},
         sel=["f0, f1: script / stylesheet file names from a hostile catalogue (space, '%41', '#', '?', non-ASCII, nested directories)",
              "lib: libdir None / 'lib' / 'a/b'", "iv: include_version", "allf: all_files", "stale: pre-existing target directory with old content",
              "missing: which listed file is missing", "recv: save_html on a document / tag / list", "srck: local / URL / no source"],
         targets=["htmltools._core.HTMLDocument.save_html", "htmltools._core.HTMLDependency.copy_to", "htmltools._core.HTMLDependency.source_path_map",
                  "htmltools._util.package_dir"],
         stubs=["real file system in a scratch directory per path (tempfile.mkdtemp, removed afterwards); CrossHair's tracer is suspended for the body (all inputs concrete)"],
         timeout={"quick": 300, "thorough": 1800},
         outside="symlinks; permissions; the encoding used by open(file, 'w'); concurrent modification of the source tree")
def h_copy(f0: int, f1: int, lib: int, iv: int, allf: int, stale: int, missing: int, recv: int, srck: int) -> bool:
    """after save_html every local URL in the written file names a copied file identical to its source; stale content is gone;
    a missing listed file raises before the target directory is touched; URL-sourced and source-less dependencies copy nothing"""
    n = len(_FILES) - 1
    return concrete(_copy_body, conc(f0, 0, n), conc(f1, 0, n), conc(lib, 0, 2), conc(iv, 0, 1), conc(allf, 0, 1), conc(stale, 0, 1),
                    conc(missing, 0, 2), conc(recv, 0, 2), conc(srck, 0, 2))
