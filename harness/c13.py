"""C13 Serialised dependencies round-trip through HTML text."""
from __future__ import annotations

import htmltools
from htmltools import HTML, HTMLDependency, HTMLDocument, HTMLTextDocument, Tag, TagList

from engine.api import conc, concrete, harness, pick
from oracles.document import dep_tags, norm_attr_order, resolve

OPEN = '<script type="application/json" data-html-dependency="">'
N_FIELD = 8


def mk(field: int, v: str) -> HTMLDependency:
    kw = dict(name="n", version="1.2", source={"subdir": "s"}, script=[{"src": "a.js"}], stylesheet=[{"href": "a.css"}],
              meta=[{"name": "m", "content": "c"}], head="<b>h</b>", all_files=False)
    if field == 0:
        kw["name"] = "n" + v
    elif field == 1:
        kw["script"] = [{"src": v}, {"src": "k.js", "integrity": v}]
    elif field == 2:
        kw["stylesheet"] = [{"href": v, "media": v}]
    elif field == 3:
        kw["meta"] = [{"name": v, "content": v}]
    elif field == 4:
        kw["head"] = v
    elif field == 5:
        kw["source"] = {"subdir": v, "package": None}
    elif field == 6:
        kw["source"] = {"href": v}
        kw["all_files"] = True
    else:
        kw["head"] = TagList(Tag("style", v), v, HTML(v))
        kw["source"] = None
    return HTMLDependency(**kw)


_TAILS = [">", " ", "/", "\n", "\t", "", " >"]


def _cased(mask: int) -> str:
    out = ""
    for i, ch in enumerate("script"):
        out += ch.upper() if (mask >> i) & 1 else ch
    return out


def _neut_body(field: int, mask: int, tail: int, ind: int) -> bool:
    hostile = "x</" + _cased(mask) + _TAILS[tail] + "y</" + _cased(mask ^ 0b101010) + ">"
    d = mk(field, hostile)
    indent = [None, 0, 2][ind]
    el = d.serialize_to_script_json(indent=indent)
    out = el.get_html_string()
    if not (out.startswith(OPEN) and out.endswith("</script>")):
        return False
    inner = out[len(OPEN):len(out) - len("</script>")]
    if "</script" in inner.lower():
        return False
    # and it still round-trips
    doc = HTMLTextDocument("A" + out + "B", deps_replace_pattern="@@")
    return doc._html == "AB" and len(doc._deps) == 1 and _dep_same(doc._deps[0], d)


def _dep_same(g, w) -> bool:
    """equal dependency: name, version, source, script, stylesheet, meta, all_files; head as identical markup"""
    return g.name == w.name and g.version == w.version and str(g.version) == str(w.version) and g.source == w.source \
        and g.script == w.script and g.stylesheet == w.stylesheet and g.meta == w.meta and g.all_files is w.all_files and _head_same(g, w)


def _head_same(a, b) -> bool:
    ha = None if a.head is None else a.head.get_html_string()
    hb = None if b.head is None else b.head.get_html_string()
    return ha == hb


@harness("C13", pre=lambda B, field, mask, tail, ind: 0 <= field < N_FIELD and 0 <= mask < 64 and 0 <= tail < len(_TAILS) and 0 <= ind <= 2,
         shard={"field": range(N_FIELD), "ind": range(3)},
         sel=["field: which dependency field carries the hostile text (name, script src/integrity, stylesheet href/media, meta name/content, head string, "
              "source subdir, source href, head tags)", "mask: 6-bit letter-case mask of 'script' (all 64 casings)",
              "tail: character after the name ('>', space, '/', LF, TAB, nothing, ' >')", "ind: indent None / 0 / 2"],
         targets=["htmltools._core.HTMLDependency.serialize_to_script_json", "htmltools._core.HTMLTextDocument._static_extract_serialized_html_deps"],
         outside="symbolic characters inside the field (json.dumps realises its argument; the letter case, tail and field are the solver's variables instead)")
def h_neutralise(field: int, mask: int, tail: int, ind: int) -> bool:
    """no end-tag-like '</script' in any letter case inside the serialised element before its own closing tag"""
    return concrete(_neut_body, conc(field, 0, N_FIELD - 1), conc(mask, 0, 63), conc(tail, 0, len(_TAILS) - 1), conc(ind, 0, 2))


_F = ['a"b', "back\\slash", "nl\nx", "é☃", "</script>", "<!--", "", "'", "</SCRIPT x", "&amp;<", "\\/", "<\\/script>", " ", "]]>"]
_T = ["", "\nafter", "<script>x</script>", "line\n", "</script>", "<div>é</div>", '<script type="application/json">{}</script>',
      "@@", '<script type="application/json" data-html-dependency>']


def _rt_body(field: int, fv: int, t0: int, t1: int, t2: int, pat: int) -> bool:
    d = mk(field, _F[fv])
    e = mk((field + 3) % N_FIELD, _F[(fv + 5) % len(_F)])
    sd = d.serialize_to_script_json().get_html_string()
    sd2 = d.serialize_to_script_json(indent=2).get_html_string()
    se = e.serialize_to_script_json().get_html_string()
    a, b, c = _T[t0], _T[t1], _T[t2]
    if pat == 0:
        html, want, c = a + sd + b, [d], ""
    elif pat == 1:
        html, want = a + sd + b + sd + c, [d]                  # the same serialisation twice -> once
    elif pat == 2:
        html, want = a + sd + b + se + c + sd, [d, e]          # order of first appearance
    elif pat == 3:
        html, want = a + se + sd2 + b + sd + c, [e, d, d]       # a different serialisation of an equal dependency is distinct
    else:
        html, want = sd + sd2 + se + a + b + c, [d, d, e]
    doc = HTMLTextDocument(html, deps_replace_pattern="\x00none")
    if doc._html != a + b + c:
        return False
    got = doc._deps
    if len(got) != len(want):
        return False
    for g, w in zip(got, want):
        if not _dep_same(g, w):
            return False
    return True


@harness("C13", pre=lambda B, field, fv, t0, t1, t2, pat: 0 <= field < N_FIELD and 0 <= fv < len(_F) and 0 <= t0 < B["T01"] and 0 <= t1 < B["T01"]
         and 0 <= t2 < B["T2"] and 0 <= pat <= 4,
         bounds={"quick": {"T2": 1, "T01": 7}, "thorough": {"T2": len(_T), "T01": len(_T)}},
         shard={"field": range(N_FIELD), "pat": range(5)},
         sel=["field, fv: hostile value (quotes, backslashes, newline, non-ASCII, '</script>' in two casings, '<!--', empty, escaped slash, U+2028, ']]>') in one of 8 fields",
              "t0..t2: surrounding text pieces (plain, another <script>, a stray '</script>', JSON script without the marker attribute, the placeholder itself ...)",
              "pat: 1-3 serialised copies incl. duplicates and two serialisations of an equal dependency"],
         targets=["htmltools._core.HTMLTextDocument._static_extract_serialized_html_deps", "htmltools._core.HTMLDependency.serialize_to_script_json"],
         outside="surrounding text that itself contains the exact opening tag of a serialised dependency (it would not be surrounding text but an "
                 "enclosing script element); symbolic characters in the scanned text (regex scan over a symbolic string does not finish)")
def h_roundtrip(field: int, fv: int, t0: int, t1: int, t2: int, pat: int) -> bool:
    """recovered as equal dependencies, once per distinct serialisation in order of appearance; every serialised script removed; other text untouched"""
    return concrete(_rt_body, conc(field, 0, N_FIELD - 1), conc(fv, 0, len(_F) - 1), conc(t0, 0, len(_T) - 1), conc(t1, 0, len(_T) - 1),
                    conc(t2, 0, len(_T) - 1), conc(pat, 0, 4))


PH = "<meta data-ph>"


def head_markup(deps, lib_prefix, include_version) -> str:
    """the listing script + dependency tags exactly as C11 prescribes for <head>"""
    items = []
    if deps:
        items.append(Tag("script", ";".join(d.name + "[" + str(d.version) + "]" for d in deps), type="application/html-dependencies"))
    for d in deps:
        items.extend(dep_tags(d, lib_prefix, include_version))
    return TagList(*items).get_html_string()


def _pool(i: int):
    return [HTMLDependency("alpha", "1.9", source={"subdir": "src/a"}, script={"src": "a b.js"}, stylesheet={"href": "a.css"},
                           meta={"name": "m", "content": "c<"}, head="<!--a-->"),
            HTMLDependency("beta", "2.0", source={"href": "http://cdn/x/"}, script=[{"src": "b.js", "async": ""}]),
            HTMLDependency("gamma", "0.1", head=TagList(Tag("title", "T&"), Tag("script", HTML('var r=/\\d+\\1/, p="C:\\\\t\\n\\g<0>";'))),
                           meta={"name": "b\\s", "content": "x\\1y"})][i]


@harness("C13", pre=lambda B, p, m, q, nd, cfg: len(p) <= B["L"] and len(m) <= B["L"] and len(q) <= B["L"] and 0 <= nd <= 1 and 0 <= cfg <= 2,
         bounds={"quick": {"L": 1}, "thorough": {"L": 2}},
         shard={"nd": range(2), "cfg": range(3)},
         sym=["p, m, q: text before / between / after two occurrences of the placeholder, str over all code points, len <= L"],
         sel=["nd: no dependency / one dependency (the multi-dependency cases are in h_placeholder_scan)", "cfg: lib_prefix / include_version setting"],
         targets=["htmltools._core.HTMLTextDocument.render"],
         timeout={"quick": 300, "thorough": 1500},
         note="the document is built with _html assigned directly so that the constructor's regex scan does not run over symbolic text")
def h_placeholder(p: str, m: str, q: str, nd: int, cfg: int) -> bool:
    """render() replaces only the first occurrence of the placeholder, with the listing and dependency markup C11 prescribes, leaving all other text untouched"""
    # one small dependency whose markup contains backslash sequences (a regex-template replacement would mangle them)
    deps = [HTMLDependency("g", "0.1", head=HTML("<!--\\1 \\g<0> \\n-->"))] if nd == 1 else []
    prefix, iv = pick(cfg, [("lib", True), (None, False), ("a/b", True)])
    doc = HTMLTextDocument("", deps=list(deps), deps_replace_pattern=PH)
    doc._html = p + PH + m + PH + q
    r = doc.render(lib_prefix=prefix, include_version=iv)
    want = p + head_markup(deps, prefix, iv) + m + PH + q
    if r["html"] != want:
        return False        # (symbolic text: exact comparison; the dependency here has no generated link/script/meta attributes to reorder)
    got = r["dependencies"]
    if len(got) != len(deps):
        return False
    for g, w in zip(got, deps):
        if not (g == w):
            return False
    return True


_TP = _T + ["<meta data-p", "<meta data-ph", "h>", "<meta data-ph><meta data-ph>"]


def _first(hay: str, needle: str) -> int:
    for i in range(len(hay) - len(needle) + 1):
        if hay[i:i + len(needle)] == needle:
            return i
    return -1


def _ph_scan_body(t0: int, t1: int, nd: int, cfg: int) -> bool:
    """same through the public constructor (regex scan included), text pieces from the catalogue (incl. pieces that
    overlap or contain the placeholder), oracle: splice at the first occurrence found by a plain scan"""
    deps = [_pool(i) for i in range(3)][:nd] if nd < 4 else [_pool(2), _pool(0), _pool(1)]
    prefix, iv = [("lib", True), (None, False), ("a/b", True)][cfg]
    a, b = _TP[t0], _TP[t1]
    html = a + PH + b + PH
    doc = HTMLTextDocument(html, deps=list(deps), deps_replace_pattern=PH)
    r = doc.render(lib_prefix=prefix, include_version=iv)
    i = _first(html, PH)
    want = html[:i] + head_markup(deps, prefix, iv) + html[i + len(PH):]
    if (r["html"] != want and norm_attr_order(r["html"]) != norm_attr_order(want)) or len(r["dependencies"]) != len(deps):
        return False
    for g, w in zip(r["dependencies"], deps):
        if not (g == w) or g is w:
            return False
    return True


@harness("C13", pre=lambda B, t0, t1, nd, cfg: 0 <= t0 < len(_TP) and 0 <= t1 < len(_TP) and 0 <= nd <= 4 and 0 <= cfg <= 2,
         shard={"nd": range(5)},
         sel=["t0, t1: text pieces, incl. prefixes/suffixes of the placeholder and the placeholder itself", "nd: 0-3 dependencies in two orders", "cfg"],
         targets=["htmltools._core.HTMLTextDocument.__init__", "htmltools._core.HTMLTextDocument.render"])
def h_placeholder_scan(t0: int, t1: int, nd: int, cfg: int) -> bool:
    return concrete(_ph_scan_body, conc(t0, 0, len(_TP) - 1), conc(t1, 0, len(_TP) - 1), conc(nd, 0, 4), conc(cfg, 0, 2))


def _tree(k: int):
    a, b, g = _pool(0), _pool(1), _pool(2)
    a2 = HTMLDependency("alpha", "1.10", source={"subdir": "src/a"}, script={"src": "a2.js"})
    if k == 0:
        return Tag("div", "x", a, Tag("span", b, "y", _add_ws=False))
    if k == 1:
        return TagList(a, Tag("p", a2, b), g, "t")
    if k == 2:
        return Tag("div", "no deps")
    if k == 3:
        return TagList(g, Tag("div", g, a2, a))
    return Tag("span", b, _add_ws=False)


def _json_body(k: int, cfg: int) -> bool:
    prefix, iv = [("lib", True), (None, False), ("a/b", True)][cfg]
    x = _tree(k)
    direct = x.render()
    saved = htmltools.html_dependency_render_mode
    htmltools.html_dependency_render_mode = "json"
    try:
        s = str(x)
    finally:
        htmltools.html_dependency_render_mode = saved
    doc = HTMLTextDocument("<head>" + PH + "</head>" + s, deps_replace_pattern=PH)
    r = doc.render(lib_prefix=prefix, include_version=iv)
    want = "<head>" + head_markup(direct["dependencies"], prefix, iv) + "</head>" + direct["html"]
    # JSON mode separates the serialised scripts by newlines, which stay behind as trailing whitespace: equivalent, not identical
    if norm_attr_order(r["html"]).rstrip("\n") != norm_attr_order(want).rstrip("\n"):
        return False
    if len(r["dependencies"]) != len(direct["dependencies"]):
        return False
    for g, w in zip(r["dependencies"], direct["dependencies"]):
        if not _dep_same(g, w):
            return False
    # and the same markup HTMLDocument puts in <head>
    full = HTMLDocument(x).render(lib_prefix=prefix, include_version=iv)["html"]
    hm = head_markup(direct["dependencies"], prefix, iv)
    return hm == "" or all(line.strip() in full for line in hm.split("\n"))


@harness("C13", pre=lambda B, k, cfg: 0 <= k <= 4 and 0 <= cfg <= 2, shard={"k": range(5)}, sel=["k: tree with dependencies at several levels", "cfg: lib_prefix / include_version"],
         targets=["htmltools._core._render_tag_or_taglist", "htmltools._core.HTMLTextDocument.render"])
def h_json_mode(k: int, cfg: int) -> bool:
    """rendering in JSON mode and post-processing with HTMLTextDocument is equivalent to rendering directly"""
    return concrete(_json_body, conc(k, 0, 4), conc(cfg, 0, 2))
