"""C14 Child lists hold only normalised nodes after any sequence of operations.

One operation from an arbitrary valid pre-state (inductive step): the post-state is compared with
the reference flattening and is again a flat list of tag nodes, i.e. a valid pre-state, so
sequences of any length are covered by induction on that invariant.
"""
from __future__ import annotations

from htmltools import HTML, HTMLDependency, Tag, TagList, is_tag_child, is_tag_node

from engine.api import conc, concrete, harness


import enum


class Level(enum.IntEnum):
    HIGH = 3


class Metres(float):
    def __repr__(self):
        return "Metres(" + float.__repr__(self) + ")"


class Count(int):
    def __repr__(self):
        return "<Count " + int.__repr__(self) + ">"


import collections

Pair = collections.namedtuple("Pair", "a b")


class MyList(list):
    pass


class MyStr(str):
    pass


class Bad:
    """an object of unsupported type"""


class _Invalid(Exception):
    pass


def ref_flatten(args):
    """depth-first, left-to-right flattening: lists/tuples/TagLists spliced, None dropped, numbers to
    str() text, strings whole; raises _Invalid for anything that is not a valid child"""
    out = []
    for x in args:
        if x is None:
            continue
        if isinstance(x, (list, tuple, TagList)):
            out.extend(ref_flatten(x))
        elif isinstance(x, bool):
            out.append(str(x))
        elif isinstance(x, (int, float)):
            out.append(str(x))
        elif isinstance(x, (str, HTML, Tag, HTMLDependency)) or hasattr(x, "tagify") or hasattr(x, "_repr_html_"):
            out.append(x)
        else:
            raise _Invalid()
    return out


def same_nodes(got, want) -> bool:
    if len(got) != len(want):
        return False
    for g, w in zip(got, want):
        if isinstance(w, str):
            if not isinstance(g, str) or g != w:
                return False
        elif g is not w:
            return False
    return True


_T1 = Tag("b", "one")
_T2 = Tag("i")
_DEP = HTMLDependency("d", "1.0")
_H = HTML("<h>")
N_KIND = 20


def arg(kind: int, s: str):
    if kind == 0:
        return s
    if kind == 1:
        return 7
    if kind == 2:
        return 1.5
    if kind == 3:
        return None
    if kind == 4:
        return _H
    if kind == 5:
        return _T1
    if kind == 6:
        return [s, None, [3, (_T2, [])]]
    if kind == 7:
        return TagList(_T2, "q")
    if kind == 8:
        return _DEP
    if kind == 9:
        return Bad()
    if kind == 10:
        return ["a", Bad()]
    if kind == 11:
        return ("a", [None, [Bad()]])
    if kind == 12:
        return []
    if kind == 13:
        return (s, 2, True)
    if kind == 15:
        return [Level.HIGH, Count(5)]          # number subclasses whose repr() differs from str()
    if kind == 16:
        return Metres(2.5)
    if kind == 17:
        return Pair("n1", MyList(["n2", Pair(None, 4)]))       # tuple / list subclasses are spliced like tuples / lists
    if kind == 18:
        return MyStr("sub<class")                              # a str subclass is a string: kept whole
    if kind == 19:
        row = [s, _T2]
        shared = TagList("q", _T1)
        return [row, (row, [row]), shared, [shared]]          # ONE container object at several places of the structure: spliced at each
    return [[[_T1]], TagList(), (None,)]


def pre_state(st: int):
    nodes = [[], ["a"], ["a", _T1], [_T2, _DEP, "z"]][st]
    tl = TagList()
    tl.data = list(nodes)
    return tl, list(nodes)


N_OP = 19


def _conc(idx: int) -> int:
    for i in range(-3, 3):
        if idx == i:
            return i
    return 3


def _pre(B, op, st, kx, ky, idx, s):
    return 0 <= op < N_OP and 0 <= st <= 3 and 0 <= kx < N_KIND and ky in (0, 3, 5, 6, 9) and -3 <= idx <= 3 and len(s) <= B["L"] \
        and (op in (3, 10, 11, 14) or idx == 0) and (op not in (3, 7, 8, 9, 10, 11, 14, 16, 18) or ky == 0)


@harness("C14", pre=_pre, bounds={"quick": {"L": 1}, "thorough": {"L": 2}},
         shard=lambda B: [{"op": o, "kx": k} for o in range(N_OP) for k in range(N_KIND) if not (o in (7, 8, 9) and k > 0) and not (o in (10, 11) and k > 1)],
         sym=["s: str over all code points, len <= L (text of string arguments)", "idx: insertion / slice / repeat index in [-3, 3]"],
         sel=["op: 19 child operations (constructor, append, extend, insert, +, reflected +, +=, slicing, repetition, Tag delegates)",
              "st: 4 valid pre-states", "kx, ky: argument shapes (scalars, None, nested lists/tuples/TagLists to depth 3, tags, HTML, dependency, invalid objects at depth 0-2, int/float subclasses whose repr differs from str, one container object occurring several times)"],
         targets=["htmltools._core._tagchilds_to_tagnodes", "htmltools._util.flatten", "htmltools._core.TagList.extend", "htmltools._core.TagList.insert",
                  "htmltools._core.TagList.__add__", "htmltools._core.TagList.__radd__", "htmltools._core.TagList.__iadd__", "htmltools._core.is_tag_child"],
         timeout={"quick": 200, "thorough": 900})
def h_ops(op: int, st: int, kx: int, ky: int, idx: int, s: str) -> bool:
    tl, pre = pre_state(st)
    X, Y = arg(kx, s), arg(ky, s)
    i = _conc(idx)
    unchanged = True      # must the receiver be left as it was?
    res = None
    try:
        want_args = None
        if op == 0:
            res = TagList(tl, X, Y)
            want_args = [pre, X, Y]
        elif op == 1:
            tl.append(X, Y)
            want_args, unchanged, res = [pre, X, Y], False, tl
        elif op == 2:
            tl.extend([X, Y])
            want_args, unchanged, res = [pre, X, Y], False, tl
        elif op == 3:
            tl.insert(idx, X)
            exp = list(pre)
            exp[i:i] = ref_flatten([X])
            return same_nodes(tl.data, exp) and _valid(tl)
        elif op == 4:
            res = tl + [X, Y]
            want_args = [pre, X, Y]
        elif op == 5:
            res = [X, Y] + tl
            want_args = [X, Y, pre]
        elif op == 6:
            orig = tl
            tl += [X, Y]
            if tl is not orig:
                return False
            want_args, unchanged, res = [pre, X, Y], False, tl
        elif op == 7:
            res = tl + s          # a string is kept whole
            want_args = [pre, s]
        elif op == 8:
            res = s + tl
            want_args = [s, pre]
        elif op == 9:
            orig = tl
            tl += s
            if tl is not orig:
                return False
            want_args, unchanged, res = [pre, s], False, tl
        elif op == 10:
            res = tl[i:] if kx % 2 == 0 else tl[:i]
            exp = pre[i:] if kx % 2 == 0 else pre[:i]
            return isinstance(res, TagList) and same_nodes(res.data, exp) and same_nodes(tl.data, pre) and _valid(res)
        elif op == 11:
            n = i if i >= 0 else 0
            res = tl * n if kx % 2 == 0 else n * tl
            return isinstance(res, TagList) and same_nodes(res.data, pre * n) and same_nodes(tl.data, pre) and _valid(res)
        elif op == 12:
            t = Tag("div", "k")
            t.append(X, Y)
            return same_nodes(t.children.data, ref_flatten(["k", X, Y])) and _valid(t.children)
        elif op == 13:
            t = Tag("div", "k")
            t.extend([X, Y])
            return same_nodes(t.children.data, ref_flatten(["k", X, Y])) and _valid(t.children)
        elif op == 14:
            t = Tag("div", "k", "l")
            t.insert(idx, X)
            exp = ["k", "l"]
            exp[i:i] = ref_flatten([X])
            return same_nodes(t.children.data, exp) and _valid(t.children)
        elif op == 15:
            t = Tag("div", X, {"a": 1}, Y, {"b": None})
            return same_nodes(t.children.data, ref_flatten([X, Y])) and _valid(t.children)
        elif op == 16:
            res = tl + TagList(X)
            want_args = [pre, X]
        elif op == 17:
            tl.extend(TagList(Y, X))
            want_args, unchanged, res = [pre, Y, X], False, tl
        else:
            orig = tl
            tl += (X,)
            if tl is not orig:
                return False
            want_args, unchanged, res = [pre, X], False, tl
        want = ref_flatten(want_args)
    except _Invalid:
        return False       # the operation accepted an argument the reference rejects
    except TypeError:
        # legitimate only if the reference rejects the arguments too; the receiver must be unchanged
        try:
            if op in (3, 14):
                ref_flatten([X])
            elif op in (12, 13, 15):
                ref_flatten([X, Y])
            elif op in (16, 18):
                ref_flatten([X])
            elif op in (7, 8, 9, 10, 11):
                return False
            else:
                ref_flatten([X, Y])
        except _Invalid:
            return same_nodes(tl.data, pre)
        return False
    if not isinstance(res, TagList) or not same_nodes(res.data, want) or not _valid(res):
        return False
    if unchanged and not same_nodes(tl.data, pre):
        return False
    # is_tag_child accepts every value these operations accept
    if op in (7, 8, 9):
        return is_tag_child(s)
    return is_tag_child(X) and (op in (16, 18) or is_tag_child(Y))


N_TOK = 8


def build_nested(toks):
    """token vector -> argument list: 0 text, 1 None, 2 number, 3 '[' opens a list, 4 '(' opens a tuple,
    5 closes the innermost open container (ignored when none is open), 6 an invalid object, 7 a tag;
    containers still open at the end are closed there.  Depth and fan-out are whatever the vector spells."""
    stack = [[]]
    kinds = []
    for t in toks:
        if t == 0:
            stack[-1].append("x<")
        elif t == 1:
            stack[-1].append(None)
        elif t == 2:
            stack[-1].append(3)
        elif t == 3 or t == 4:
            stack.append([])
            kinds.append(t)
        elif t == 5:
            if kinds:
                c = stack.pop()
                stack[-1].append(c if kinds.pop() == 3 else tuple(c))
        elif t == 6:
            stack[-1].append(Bad())
        else:
            stack[-1].append(_T1)
    while kinds:
        c = stack.pop()
        stack[-1].append(c if kinds.pop() == 3 else tuple(c))
    return stack[0]


N_NOP = 9


def _pre_nested(B, op, t0, t1, t2, t3, t4, t5):
    n = B["N"]
    ts = (t0, t1, t2, t3, t4, t5)
    for i in range(6):
        if i < n:
            if not 0 <= ts[i] < N_TOK:
                return False
        elif ts[i] != 5:
            return False
    return 0 <= op < N_NOP


@harness("C14", pre=_pre_nested, bounds={"quick": {"N": 4}, "thorough": {"N": 4}},
         shard=lambda B: [{"op": o, "t0": t} for o in range(N_NOP) for t in range(N_TOK)],
         sel=["t0..t5: a token vector spelling the argument structure (text, None, number, open list, open tuple, close, invalid object, tag): "
              "every nesting shape of at most N tokens, depth up to N", "op: 9 operations receiving that structure"],
         targets=["htmltools._core._tagchilds_to_tagnodes", "htmltools._util.flatten", "htmltools._util._flatten_recurse", "htmltools._core.TagList.extend",
                  "htmltools._core.TagList.insert", "htmltools._core.TagList.__add__", "htmltools._core.TagList.__radd__", "htmltools._core.TagList.__iadd__",
                  "htmltools._core.Tag.__init__"],
         outside="argument structures of more than N tokens; leaf values other than the four of the token alphabet (h_ops varies those)",
         timeout={"quick": 200, "thorough": 1500})
def h_nested(op: int, t0: int, t1: int, t2: int, t3: int, t4: int, t5: int) -> bool:
    return concrete(_nested_body, conc(op, 0, N_NOP - 1), conc(t0, 0, N_TOK - 1), conc(t1, 0, N_TOK - 1), conc(t2, 0, N_TOK - 1),
                    conc(t3, 0, N_TOK - 1), conc(t4, 0, N_TOK - 1), conc(t5, 0, N_TOK - 1))


def _nested_body(op, t0, t1, t2, t3, t4, t5) -> bool:
    items = build_nested((t0, t1, t2, t3, t4, t5))
    pre = ["a", _T1]
    tl = TagList()
    tl.data = list(pre)
    try:
        flat = ref_flatten(items)
        ok = True
    except _Invalid:
        flat, ok = None, False
    mutates = op in (1, 2, 5, 6, 8)
    try:
        if op == 0:
            res, want = TagList(tl, *items), (pre + flat if ok else None)
        elif op == 1:
            tl.append("h", *items)
            res, want = tl, (pre + ["h"] + flat if ok else None)
        elif op == 2:
            tl.extend(items)
            res, want = tl, (pre + flat if ok else None)
        elif op == 3:
            res, want = tl + items, (pre + flat if ok else None)
        elif op == 4:
            res, want = items + tl, (flat + pre if ok else None)
        elif op == 5:
            orig = tl
            tl += items
            if tl is not orig:
                return False
            res, want = tl, (pre + flat if ok else None)
        elif op == 6:
            tl.insert(1, items)          # one argument: the whole structure is one child, flattened in place
            res, want = tl, (pre[:1] + flat + pre[1:] if ok else None)
        elif op == 7:
            t = Tag("div", "k", *items)
            res, want = t.children, (["k"] + flat if ok else None)
        else:
            t = Tag("div", "k")
            t.insert(0, tuple(items))
            res, want = t.children, (flat + ["k"] if ok else None)
    except TypeError:
        # legitimate exactly when the reference rejects the structure; the receiver is then unchanged
        return (not ok) and same_nodes(tl.data, pre)
    if not ok:
        return False                       # an invalid object at some depth was accepted
    if not isinstance(res, TagList) or not same_nodes(res.data, want) or not _valid(res):
        return False
    if not mutates and not same_nodes(tl.data, pre):
        return False
    return is_tag_child(items)


def _valid(tl) -> bool:
    for x in tl.data:
        if not is_tag_node(x):
            return False
        if isinstance(x, (list, tuple, TagList, int, float)) or x is None:
            return False
    return True
