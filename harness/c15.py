"""C15 Attribute names and values are normalised and merged in argument order."""
from __future__ import annotations

from htmltools import HTML, Tag, consolidate_attrs
from htmltools._core import TagAttrDict
from htmltools._jsx import JSXTagAttrDict

from engine.api import conc, concrete, harness, pick
from oracles.attrs import attrs_as_list, ref_attr_name, ref_merge


@harness("C15", pre=lambda B, raw: len(raw) <= B["L"],
         bounds={"quick": {"L": 4}, "thorough": {"L": 6}},
         sym=["raw: attribute name, str over all code points, len <= L"],
         targets=["htmltools._core.TagAttrDict._normalize_attr_name"],
         timeout={"quick": 150, "thorough": 900},
         note="the normaliser is called directly because a symbolic dict key is realised by hashing; the public "
              "paths are covered by h_name_public with solver-chosen concrete names")
def k_attr_name(raw: str) -> bool:
    r = ref_attr_name(raw)
    # private helpers: if a refactoring removes them the public paths (h_name_public) still cover normalisation
    f = getattr(TagAttrDict, "_normalize_attr_name", None)
    g = getattr(JSXTagAttrDict, "_normalize_attr_name", None)
    return (f is None or f(raw) == r) and (g is None or g(raw) == r)


_ALPHA = "x_-aB"


def _name(n: int, c0: int, c1: int, c2: int) -> str:
    s = pick(c0, _ALPHA)
    if n >= 2:
        s += pick(c1, _ALPHA)
    if n >= 3:
        s += pick(c2, _ALPHA)
    return s


@harness("C15",
         pre=lambda B, how, n, c0, c1, c2: 0 <= how <= 4 and 1 <= n <= 3 and 0 <= c0 <= 4 and 0 <= c1 <= 4 and 0 <= c2 <= 4
         and (n >= 2 or c1 == 0) and (n >= 3 or c2 == 0),
         shard={"how": range(5)},
         sel=["how: positional dict / keyword / item assignment / attrs.update / TagAttrDict()", "n, c0..c2: every name over {x,_,-,a,B} up to 3 characters"],
         targets=["htmltools._core.TagAttrDict.update", "htmltools._core.TagAttrDict.__setitem__"])
def h_name_public(how: int, n: int, c0: int, c1: int, c2: int) -> bool:
    raw = _name(n, c0, c1, c2)
    if how == 0:
        a = Tag("t", {raw: "v"}).attrs
    elif how == 1:
        a = Tag("t", **{raw: "v"}).attrs
    elif how == 2:
        a = Tag("t").attrs
        a[raw] = "v"
    elif how == 3:
        a = Tag("t").attrs
        a.update({raw: "v"})
    else:
        a = TagAttrDict(**{raw: "v"})
    return list(a.items()) == [(ref_attr_name(raw), "v")]


_NAMES = ["x", "x_", "x__", "a_b", "a-b"]


def _val(k: int, s: str, i: int):
    if k == 0:
        return None
    if k == 1:
        return True
    if k == 2:
        return False
    if k == 3:
        return 7 + i
    if k == 4:
        return s + str(i)
    if k == 5:
        return HTML(s + str(i))
    return 1.5


def _pre_merge(B, n0, n1, n2, n3, k0, k1, k2, k3):
    for n in (n0, n1, n2, n3):
        if not (0 <= n <= 4):
            return False
    for k in (k0, k1, k2, k3):
        if not (0 <= k <= B["K"]) or (k == 2 and not B["FOUR"]):
            return False
    if not B["FOUR"] and not (n1 == 0 and k1 == 0):
        return False
    if B["FOUR"] and not (n1 in (0, 1, 3) and k1 in (0, 3, 5)):
        return False        # second entry of the first dict: three names, three kinds (keeps a shard near 10 000 paths)
    return True


@harness("C15", pre=_pre_merge,
         bounds={"quick": {"K": 4, "FOUR": False}, "thorough": {"K": 5, "FOUR": True}},
         shard=lambda B: [{"n0": a, "n2": b} for a in range(5) for b in range(5)],
         sel=["n0..n3: raw names from {x, x_, x__, a_b, a-b} for two entries of the first dict, one of the second dict, one keyword "
              "(quick: the second entry of the first dict is fixed)", "k0..k3: value kind None/True/False/int/str/HTML()/float"],
         targets=["htmltools._core.TagAttrDict.update", "htmltools._core.Tag.__init__"],
         timeout={"quick": 150, "thorough": 1500})
def h_merge(n0: int, n1: int, n2: int, n3: int, k0: int, k1: int, k2: int, k3: int) -> bool:
    return concrete(_merge_body, conc(n0, 0, 4), conc(n1, 0, 4), conc(n2, 0, 4), conc(n3, 0, 4), conc(k0, 0, 6), conc(k1, 0, 6), conc(k2, 0, 6), conc(k3, 0, 6))


def _merge_body(n0: int, n1: int, n2: int, n3: int, k0: int, k1: int, k2: int, k3: int) -> bool:
    s = "&v\""
    d1 = {pick(n0, _NAMES): _val(k0, s, 0)}
    if not (n1 == 0 and k1 == 0):
        d1[pick(n1, _NAMES)] = _val(k1, s, 1)
    d2 = {pick(n2, _NAMES): _val(k2, s, 2)}
    kw = {pick(n3, _NAMES): _val(k3, s, 3)}
    want = ref_merge([list(d1.items()), list(d2.items()), list(kw.items())])
    t = Tag("t", d1, "child", d2, **kw)
    return attrs_as_list(t.attrs) == want


@harness("C15",
         pre=lambda B, n0, n3, k0, k3: 0 <= n0 <= 4 and 0 <= n3 <= 4 and 0 <= k0 <= 5 and 0 <= k3 <= 5,
         shard={"n0": range(5)},
         sel=["n0, n3: raw names of a dict entry and a keyword", "k0, k3: value kinds"],
         targets=["htmltools._core.consolidate_attrs"])
def h_consolidate(n0: int, n3: int, k0: int, k3: int) -> bool:
    return concrete(_consolidate_body, conc(n0, 0, 4), conc(n3, 0, 4), conc(k0, 0, 5), conc(k3, 0, 5))


def _consolidate_body(n0: int, n3: int, k0: int, k3: int) -> bool:
    import collections
    from htmltools._core import TagAttrDict as _TAD
    """consolidate_attrs returns exactly the merged attributes plus the non-dict arguments unchanged, so
    rebuilding a tag from its result equals building it directly."""
    s = "&v\""
    d1 = {pick(n0, _NAMES): _val(k0, s, 0), "id": "i"}
    d2 = {"id": None, "x": 3}
    if k3 % 3 == 1:
        d2 = collections.OrderedDict(d2)        # any dict subclass is an attribute dict
    elif k3 % 3 == 2:
        d2 = _TAD(d2)
    kw = {pick(n3, _NAMES): _val(k3, s, 3)}
    want = ref_merge([list(d1.items()), list(d2.items()), list(kw.items())])
    child = Tag("b")
    lst = ["l", None]
    attrs, kids = consolidate_attrs(d1, child, d2, "z", lst, **kw)
    if type(attrs) is not dict or attrs_as_list(attrs) != want:
        return False
    if not (len(kids) == 3 and kids[0] is child and kids[1] == "z" and kids[2] is lst):
        return False
    return Tag("t", attrs, *kids) == Tag("t", d1, child, d2, "z", lst, **kw)


def _pre_upd(B, op, n0, n1, nu, k0, k1, ku):
    return 0 <= op <= 2 and 0 <= n0 <= 4 and 0 <= n1 <= 4 and 0 <= nu <= 4 and k0 in (1, 4, 5) and k1 in (1, 4, 5) \
        and 0 <= ku <= 5


@harness("C15", pre=_pre_upd, bounds={"quick": {}},
         shard={"op": range(3), "nu": range(5), "n0": range(5)},
         sel=["arbitrary two-entry attribute map, then one update / item assignment / two-dict update"],
         targets=["htmltools._core.TagAttrDict.update", "htmltools._core.TagAttrDict.__setitem__"],
         timeout={"quick": 150, "thorough": 900})
def h_update_replace(op: int, n0: int, n1: int, nu: int, k0: int, k1: int, ku: int) -> bool:
    return concrete(_update_body, conc(op, 0, 2), conc(n0, 0, 4), conc(n1, 0, 4), conc(nu, 0, 4), conc(k0, 0, 5), conc(k1, 0, 5), conc(ku, 0, 5))


def _update_body(op: int, n0: int, n1: int, nu: int, k0: int, k1: int, ku: int) -> bool:
    """Inductive step: from an arbitrary attribute map, a later update / item assignment replaces (keeps
    the position of an existing name, appends a new one) and never joins with the stored value."""
    s = "<v'"
    t = Tag("t", {pick(n0, _NAMES): _val(k0, s, 0)}, **{pick(n1, _NAMES): _val(k1, s, 1)})
    before = attrs_as_list(t.attrs)
    raw = pick(nu, _NAMES)
    v = _val(ku, s, 2)
    if op == 0:
        t.attrs.update({raw: v})
        new = ref_merge([[(raw, v)]])
    elif op == 1:
        t.attrs[raw] = v
        new = ref_merge([[(raw, v)]])
    else:
        t.attrs.update({raw: v}, **{raw: "q"})
        new = ref_merge([[(raw, v)], [(raw, "q")]])
    want = list(before)
    for item in new:
        hit = False
        for i in range(len(want)):
            if want[i][0] == item[0]:
                want[i] = item
                hit = True
        if not hit:
            want.append(item)
    return attrs_as_list(t.attrs) == want


@harness("C15",
         pre=lambda B, fam, k0, k1, k2, a, b, c: 0 <= fam <= 1 and 4 <= k0 <= 5 and 4 <= k1 <= 5 and 4 <= k2 <= 5
         and len(a) <= B["L"] and len(b) <= B["L"] and len(c) <= B["LC"],
         bounds={"quick": {"L": 1, "LC": 0}, "thorough": {"L": 1, "LC": 1}},
         shard={"fam": range(2), "k0": (4, 5), "k1": (4, 5), "k2": (4, 5)},
         sym=["a, b, c: values, str over all code points, len <= L"],
         sel=["fam: colliding family x/x_/x (-> x) or a_b/a-b/a_b_ (-> a-b)", "k0..k2: plain or HTML() per value"],
         targets=["htmltools._core.TagAttrDict.update"],
         timeout={"quick": 200, "thorough": 1500})
def h_merge_sym(fam: int, k0: int, k1: int, k2: int, a: str, b: str, c: str) -> bool:
    """Three values for one normalised name (dict, dict, keyword) with symbolic text: joined by single
    spaces in argument order, stored verbatim (plain) or as HTML() with plain parts attribute-escaped."""
    names = ("x", "x_", "x") if fam == 0 else ("a_b", "a-b", "a_b_")
    c = c + "'&"
    va = HTML(a) if k0 == 5 else a
    vb = HTML(b) if k1 == 5 else b
    vc = HTML(c) if k2 == 5 else c
    t = Tag("t", {names[0]: va, "id": "i"}, {names[1]: vb}, **{names[2]: vc})
    want = ref_merge([[(names[0], va), ("id", "i")], [(names[1], vb)], [(names[2], vc)]])
    return attrs_as_list(t.attrs) == want
