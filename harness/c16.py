"""C16 Class/style helpers and css() act as token-set and declaration algebra."""
from __future__ import annotations

from htmltools import HTML, Tag, css

from engine.api import harness, pick


def _is_token(t: str) -> bool:
    if len(t) == 0:
        return False
    for c in t:
        if c.isspace():
            return False
    return True


def _pre_cls(B, op, has, c0, t):
    return 0 <= op <= 3 and 0 <= has <= 1 and len(c0) <= B["LC"] and len(t) <= B["LT"] and _is_token(t) and (has == 1 or len(c0) == 0)


@harness("C16", pre=_pre_cls,
         bounds={"quick": {"LC": 3, "LT": 2}, "thorough": {"LC": 4, "LT": 2}},
         shard={"op": range(4), "has": range(2)},
         sym=["c0: initial class attribute value, str over all code points (arbitrary whitespace), len <= LC",
              "t: whitespace-free class token, len <= LT"],
         sel=["op: add_class / add_class(prepend) / remove_class / has_class", "has: class attribute initially present or absent"],
         targets=["htmltools._core.Tag.add_class", "htmltools._core.Tag.remove_class", "htmltools._core.Tag.has_class"],
         timeout={"quick": 200, "thorough": 1500})
def h_class_ops(op: int, has: int, c0: str, t: str) -> bool:
    """One operation from an arbitrary class value, judged on whitespace-token lists."""
    tag = Tag("i", id="k", class_=c0) if has == 1 else Tag("i", id="k")
    before = c0.split() if has == 1 else []
    if op == 3:
        r = tag.has_class(t)
        return r == (t in before) and (tag.attrs.get("class") == (c0 if has == 1 else None))
    if op == 0:
        ret = tag.add_class(t)
        want = before + [t]
    elif op == 1:
        ret = tag.add_class(t, prepend=True)
        want = [t] + before
    else:
        ret = tag.remove_class(t)
        want = [x for x in before if x != t]
    if ret is not tag or tag.attrs.get("id") != "k":
        return False
    after_attr = tag.attrs.get("class")
    if len(want) == 0:
        # attribute dropped (or an initial token-less value left exactly as it was)
        if after_attr is None:
            return not tag.has_class(t)
        return has == 1 and after_attr == c0 and len(before) == 0 and not tag.has_class(t)
    if after_attr is None:
        return False
    if after_attr.split() != want:
        return False
    return tag.has_class(t) == (op != 2)


def _pre_style(B, k, pre_, prep, s):
    return 0 <= k <= 1 and 0 <= pre_ <= 1 and 0 <= prep <= 1 and len(s) <= B["L"]


@harness("C16", pre=_pre_style, bounds={"quick": {"L": 2}, "thorough": {"L": 4}},
         shard={"k": range(2), "pre_": range(2), "prep": range(2)},
         sym=["s: style declaration string, str over all code points, len <= L"],
         sel=["k: plain / HTML()", "pre_: style attribute initially absent / present", "prep: append / prepend"],
         targets=["htmltools._core.Tag.add_style"],
         timeout={"quick": 150, "thorough": 900})
def h_add_style(k: int, pre_: int, prep: int, s: str) -> bool:
    tag = Tag("i", style="a:b;", id="k") if pre_ == 1 else Tag("i", id="k")
    snap = list(tag.attrs.items())
    v = HTML(s) if k == 1 else s
    ok = len(s) > 0 and s[len(s) - 1] == ";"
    try:
        ret = tag.add_style(v, prepend=(prep == 1))
    except ValueError:
        return (not ok) and list(tag.attrs.items()) == snap
    if not ok or ret is not tag:
        return False
    got = tag.attrs.get("style")
    if got is None:
        return False
    txt = got.as_string() if isinstance(got, HTML) else got
    if pre_ == 0:
        want = s
    elif prep == 1:
        want = s + " a:b;"
    else:
        want = "a:b; " + s
    return txt == want and isinstance(got, HTML) == (k == 1) and tag.attrs.get("id") == "k"


_KA = "aB_1"


def ref_css_key(k: str) -> str:
    out = ""
    for c in k:
        if c == "_":
            out += "-"
        elif "A" <= c <= "Z":
            out += "-" + c.lower()
        else:
            out += c
    return out


def _key(n: int, c0: int, c1: int, c2: int) -> str:
    s = pick(c0, _KA)
    if n >= 2:
        s += pick(c1, _KA)
    if n >= 3:
        s += pick(c2, _KA)
    return s


def _pre_css(B, n, c0, c1, c2, kv, v, w, m):
    if kv == 4 and not (len(w) == 0 and m == 0):
        return False
    return 1 <= n <= B["NK"] and 0 <= c0 <= 3 and 0 <= c1 <= 3 and 0 <= c2 <= 3 and (n >= 2 or c1 == 0) and (n >= 3 or c2 == 0) \
        and 0 <= kv <= 4 and len(v) <= B["L"] and len(w) <= B["L"] and -1000 <= m <= 1000


@harness("C16", pre=_pre_css, bounds={"quick": {"L": 1, "NK": 2}, "thorough": {"L": 1, "NK": 3}},
         shard={"kv": range(5), "c0": range(4)},
         sym=["v, w: property values, str over all code points, len <= L", "m: int"],
         sel=["n, c0..c2: every keyword name over {a,B,_,1} up to 3 characters", "kv: value pattern (str,str / None,str / str,int / None,None / keyword spellings that normalise to the same property)"],
         targets=["htmltools._util.css", "htmltools._core.Tag.add_style"],
         timeout={"quick": 150, "thorough": 900})
def h_css(n: int, c0: int, c1: int, c2: int, kv: int, v: str, w: str, m: int) -> bool:
    k1 = _key(n, c0, c1, c2)
    k2 = "zIndex_x"
    if kv == 0:
        kw = {k1: v, k2: w}
        want = ref_css_key(k1) + ":" + v + ";" + "z-index-x:" + w + ";"
    elif kv == 1:
        kw = {k1: None, k2: w}
        want = "z-index-x:" + w + ";"
    elif kv == 2:
        kw = {k2: v, k1: m}
        want = "z-index-x:" + v + ";" + ref_css_key(k1) + ":" + str(m) + ";"
    elif kv == 4:
        # two spellings that normalise to the same property: still one declaration per argument, in order
        kw = {"font_size": v, k1: 7, "fontSize": "9px", "font-size": "z"}
        want = "font-size:" + v + ";" + ref_css_key(k1) + ":7;font-size:9px;font-size:z;"
    else:
        kw = {k1: None, k2: None}
        want = None
    got = css(**kw)
    if want is None:
        return got is None and css() is None
    if got != want:
        return False
    # always accepted by add_style
    t = Tag("i")
    return t.add_style(got) is t and t.attrs["style"] == want
