"""C17 Tag context manager restores the display hook and collects children in order."""
from __future__ import annotations

import sys

from htmltools import HTML, HTMLDependency, MetadataNode, Tag, TagList

from engine.api import harness
from oracles.util import RH


class Boom(Exception):
    pass


class Cancel(BaseException):
    """like KeyboardInterrupt / SystemExit / CancelledError: a BaseException that is not an Exception"""


class Bad:
    pass


_RH = RH("<r>")
_TG = Tag("em", "x")
_DEP = HTMLDependency("shown", "1.0", script={"src": "s.js"}, head="<!--h-->")
_MD = MetadataNode()
_TL = TagList("l1", Tag("u"))
N_KIND = 10


def value(kind: int, level: int):
    if kind == 0:
        return None
    if kind == 1:
        return ...
    if kind == 2:
        return "s" + str(level)
    if kind == 3:
        return 40 + level
    if kind == 4:
        return _RH
    if kind == 5:
        return _TG
    if kind == 7:
        return _DEP
    if kind == 8:
        return _MD
    if kind == 9:
        return _TL
    return Bad()


def expect(kind: int, level: int):
    """child appended for a displayed value, or [] if ignored; 'TypeError' if rejected"""
    if kind in (0, 1):
        return []
    if kind == 2:
        return ["s" + str(level)]
    if kind == 3:
        return [str(40 + level)]
    if kind == 4:
        return [HTML("<r>")]
    if kind == 5:
        return [_TG]
    if kind == 7:
        return [_DEP]          # a displayed dependency is kept as the metadata node it is
    if kind == 8:
        return [_MD]
    if kind == 9:
        return ["l1", _TL[1]]  # a displayed list is spliced like any list child
    return "TypeError"


class Run:
    def __init__(self, depth, ka, kb, exc, reenter, rt=0):
        self.depth, self.ka, self.kb, self.exc, self.reenter, self.rt = depth, ka, kb, exc, reenter, rt
        self.tags = {}
        self.want = {}
        self.ok = True
        self.received = []

    def h0(self, v):
        self.received.append(v)

    def block(self, level: int) -> None:
        """Runs one with-block; raises Boom/TypeError out of it exactly when the program says so."""
        t = Tag("div", id="L" + str(level))
        self.tags[level] = t
        want = []
        self.want[level] = want
        entry = sys.displayhook
        i = level - 1
        try:
            with t:
                inside = sys.displayhook
                if inside is entry:
                    self.ok = False
                # displayed value A
                ea = expect(self.ka[i], level)
                if ea == "TypeError":
                    try:
                        sys.displayhook(value(self.ka[i], level))
                        self.ok = False          # an invalid value must be rejected
                    except TypeError:
                        pass
                else:
                    sys.displayhook(value(self.ka[i], level))
                    want.extend(ea)
                if self.exc[i] == 1:
                    raise Boom()
                if self.exc[i] == 3:
                    raise Cancel()
                if level < self.depth:
                    try:
                        self.block(level + 1)
                    finally:
                        # the inner tag is handed to this block's hook exactly once, on exit
                        want.append(self.tags[level + 1])
                    if sys.displayhook is not inside:
                        self.ok = False
                if self.reenter == level:
                    try:
                        # rt = 0: this block's own tag; rt > 0: a tag whose block is still active further out, re-entered through this block
                        self.tags[level - self.rt].__enter__()
                        self.ok = False
                    except RuntimeError:
                        pass
                    if sys.displayhook is not inside:
                        self.ok = False
                eb = expect(self.kb[i], level)
                if eb == "TypeError":
                    sys.displayhook(value(self.kb[i], level))   # propagates out of the block
                    self.ok = False
                else:
                    sys.displayhook(value(self.kb[i], level))
                    want.extend(eb)
                if self.exc[i] == 2:
                    raise Boom()
        finally:
            if sys.displayhook is not entry:
                self.ok = False


def children_ok(tag, want) -> bool:
    got = list(tag.children)
    if len(got) != len(want):
        return False
    for g, w in zip(got, want):
        if isinstance(w, HTML):
            if not (isinstance(g, HTML) and g.as_string() == w.as_string()):
                return False
        elif isinstance(w, str):
            if not (isinstance(g, str) and not isinstance(g, HTML) and g == w):
                return False
        elif g is not w:
            return False
    return True


def _pre(B, depth, ka1, kb1, e1, ka2, kb2, e2, ka3, kb3, e3, reenter, rt):
    if not (1 <= depth <= B["D"] and 0 <= reenter <= depth):
        return False
    if not (0 <= rt <= 2 and (rt == 0 or rt < reenter)):
        return False
    for k in (ka1, ka2, ka3):
        if not (0 <= k < N_KIND):
            return False
    for k in (kb1, kb2, kb3):
        if k not in (2, 6):
            return False
    for e in (e1, e2, e3):
        if not (0 <= e <= 3):
            return False
    if depth < 2 and not (ka2 == 0 and kb2 == 2 and e2 == 0):
        return False
    if depth < 3 and not (ka3 == 0 and kb3 == 2 and e3 == 0):
        return False
    if depth == 3 and B["D3_SMALL"] and not (ka1 in (2, 4) and ka2 in (5, 6) and kb1 == 2):
        return False
    return True


@harness("C17", pre=_pre,
         bounds={"quick": {"D": 2, "D3_SMALL": True}, "thorough": {"D": 3, "D3_SMALL": True}},
         shard=lambda B: [{"depth": d, "ka1": k, "e1": e} for d in range(1, B["D"] + 1) for k in range(N_KIND) for e in range(4)
                          if not (d == 3 and k not in (2, 4))],
         sel=["depth: nesting of with-blocks", "ka*, kb*: displayed value kinds per level (None, Ellipsis, str, number, _repr_html_ object, tag, invalid, dependency, bare metadata node, TagList)",
              "e*: exception raised before / after the inner block, or a BaseException that is not an Exception", "reenter: level at which an active tag is re-entered", "rt: which active tag - this block's own (0) or the one rt levels further out, re-entered through the inner block(s)"],
         targets=["htmltools._core.Tag.__enter__", "htmltools._core.Tag.__exit__", "htmltools._core.wrap_displayhook_handler"],
         stubs=["sys.displayhook is replaced by a recording stub for the duration of a path and restored afterwards"],
         timeout={"quick": 200, "thorough": 1500})
def h_with_blocks(depth: int, ka1: int, kb1: int, e1: int, ka2: int, kb2: int, e2: int,
                  ka3: int, kb3: int, e3: int, reenter: int, rt: int) -> bool:
    saved = sys.displayhook
    r = Run(depth, (ka1, ka2, ka3), (kb1, kb2, kb3), (e1, e2, e3), reenter, 0 if rt == 0 else (1 if rt == 1 else 2))
    sys.displayhook = r.h0
    try:
        raised = None
        try:
            r.block(1)
        except (Boom, TypeError, Cancel) as e:
            raised = e
        if sys.displayhook != r.h0:
            return False
        # an exception leaves the program exactly when level 1 says so (its own raise, an invalid B value,
        # or an exception propagating from an inner level)
        exp_raise = False
        for lvl in range(depth, 0, -1):
            i = lvl - 1
            if r.exc[i] == 1 or r.exc[i] == 3:          # raised before the inner block ran
                exp_raise = True
            elif exp_raise:            # propagating out of the inner block
                exp_raise = True
            elif r.kb[i] == 6 or r.exc[i] == 2:
                exp_raise = True
        if (raised is not None) != exp_raise:
            return False
        if not r.ok:
            return False
        # the outermost tag was handed to the original hook exactly once
        if not (len(r.received) == 1 and r.received[0] is r.tags[1]):
            return False
        for lvl, t in r.tags.items():
            if not children_ok(t, r.want[lvl]):
                return False
            if t.attrs.get("id") != "L" + str(lvl):
                return False
        return True
    finally:
        sys.displayhook = saved


@harness("C17", pre=lambda B, hk, ex: 0 <= hk <= 2 and 0 <= ex <= 1,
         sel=["hk: which hook is installed at entry (recording stub, bound method, sys.__displayhook__ wrapper)", "ex: exception inside the block"],
         targets=["htmltools._core.Tag.__enter__", "htmltools._core.Tag.__exit__"])
def h_one_step(hk: int, ex: int) -> bool:
    """Inductive variant: whatever hook is installed, one enter/exit restores exactly it and hands it the tag once."""
    saved = sys.displayhook
    got = []

    class K:
        def meth(self, v):
            got.append(v)

    def wrap(v):
        got.append(v)

    hook = got.append if hk == 0 else (K().meth if hk == 1 else wrap)
    sys.displayhook = hook
    try:
        t = Tag("p")
        try:
            with t:
                sys.displayhook("a")
                if ex == 1:
                    raise Boom()
        except Boom:
            pass
        after = sys.displayhook
        # a tag can be entered again once its block has exited? (prev_displayhook is kept) - not promised; only check the hook
        return (after is hook or after == hook) and len(got) == 1 and got[0] is t and list(t.children) == ["a"]
    finally:
        sys.displayhook = saved


@harness("C17", pre=lambda B, t, n, ex: len(t) <= B["L"] and -10 ** 6 <= n <= 10 ** 6 and 0 <= ex <= 1, bounds={"quick": {"L": 2}, "thorough": {"L": 4}},
         shard={"ex": range(2)},
         sym=["t: displayed string, str over all code points, len <= L", "n: displayed integer"], sel=["ex: exception after the displays"],
         targets=["htmltools._core.wrap_displayhook_handler", "htmltools._core.Tag.__exit__"], timeout={"quick": 200, "thorough": 900})
def h_display_values_sym(t: str, n: int, ex: int) -> bool:
    """displayed strings and numbers become children under the normal child rules (whole string, str() of the number), in order"""
    saved = sys.displayhook
    got = []
    sys.displayhook = got.append
    try:
        outer, inner = Tag("div"), Tag("p")
        try:
            with outer:
                sys.displayhook(t)
                with inner:
                    sys.displayhook(n)
                    sys.displayhook(RH(t))
                sys.displayhook(t)
                if ex == 1:
                    raise Boom()
        except Boom:
            pass
        if sys.displayhook != got.append or not (len(got) == 1 and got[0] is outer):
            return False
        kids, ik = list(outer.children), list(inner.children)
        return len(kids) == 3 and kids[0] == t and kids[1] is inner and kids[2] == t and len(ik) == 2 and ik[0] == str(n) \
            and isinstance(ik[1], HTML) and ik[1].as_string() == t
    finally:
        sys.displayhook = saved
