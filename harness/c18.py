"""C18 Output is deterministic across processes and independent of history."""
from __future__ import annotations

import hashlib
import json
import os
import subprocess
import sys

import htmltools
import htmltools._core as core
from htmltools import HTML, HTMLDependency, HTMLDocument, HTMLTextDocument, Tag, TagList, head_content

from engine.api import conc, concrete, harness, pick
from engine.stubs import ndhash
from oracles.escape import ref_escape_text

N_SC = 6


def scenario(h, sc: int):
    """A construction whose observable output must not depend on the hash seed; `h` is the htmltools package to use
    (the real one, or the re-loaded one whose sets / hash() are nondeterministic)."""
    dep = lambda n, v, **kw: h.HTMLDependency(n, v, **kw)   # noqa: E731
    if sc == 0:
        ds = [dep("b", "1.0", script={"src": "b.js"}), dep("a", "2.0", head="<!--a-->"), dep("c", "0.1"), dep("a", "2.0", head="<!--a-->")]
        text = "T".join(d.serialize_to_script_json().get_html_string() for d in ds) + "@@"
        doc = h.HTMLTextDocument(text, deps_replace_pattern="@@")
        r = doc.render()
        return [r["html"], [d.name for d in r["dependencies"]]]
    if sc == 1:
        rich = dep("w", "1.0", source={"subdir": "w"},
                   script=[{"src": "w.js", "type": "module", "crossorigin": "anonymous", "integrity": "sha-x", "defer": ""}],
                   stylesheet=[{"href": "w.css", "media": "print", "title": "t", "hreflang": "en"}],
                   meta=[{"name": "n", "content": "c", "charset": "x", "http-equiv": "y"}])
        x = h.Tag("div", dep("z", "1.0"), rich, h.head_content(h.Tag("title", "t")), dep("y", "1.2", script={"src": "y.js"}),
                  h.Tag("p", dep("z", "1.1"), h.head_content(h.Tag("style", "s")), h.head_content(h.Tag("title", "t"))))
        r = h.HTMLDocument(x).render()
        return [r["html"], [d.name + str(d.version) for d in r["dependencies"]]]
    if sc == 2:
        t = h.Tag("i", {"class": "a", "id": "x", "title": "t"}, {"class": "b"}, class_="c", data_k="v")
        t.add_class("d").add_class("e", prepend=True).remove_class("b").add_style("k:v;")
        return [str(t), list(t.attrs.keys())]
    if sc == 3:
        x = h.TagList(dep("m", "1.0"), h.Tag("br"), h.Tag("hr", dep("n", "1.0")), h.Tag("script", "a<b"), h.Tag("style", "x>y"), "t&", dep("o", "3"))      # exactly three names
        r = x.render()
        return [r["html"], [d.name for d in r["dependencies"]]]
    if sc == 4:
        names = [h.head_content(h.Tag("title", "t")).name, h.head_content("t", h.HTML("<b>")).name, h.head_content().name]
        return [names]
    saved = h.html_dependency_render_mode
    h.html_dependency_render_mode = "json"
    try:
        s = str(h.Tag("div", dep("q", "1.0"), dep("p", "1.0", meta={"name": "n", "content": "c"}), dep("q", "1.0")))
    finally:
        h.html_dependency_render_mode = saved
    return [s]


def _replay_seed(sc: int, **_kw) -> bool:
    """Native confirmation of a refutation: run the scenario in real interpreter processes under different
    PYTHONHASHSEED values; True (= no violation) unless two processes really differ."""
    outs = set()
    code = ("import sys, json; sys.path.insert(0, %r); import htmltools; from harness.c18 import scenario; "
            "print(json.dumps(scenario(htmltools, %d)))" % (os.path.dirname(os.path.dirname(os.path.abspath(__file__))), sc))
    for seed in ("0", "1", "2", "3", "7", "11", "42", "1234"):
        env = dict(os.environ, PYTHONHASHSEED=seed)
        p = subprocess.run([sys.executable, "-c", code], capture_output=True, text=True, env=env, timeout=120)
        if p.returncode != 0:
            return False
        outs.add(p.stdout)
    return len(outs) == 1


@harness("C18", pre=lambda B, sc, a0, a1, a2, b0, b1, b2: 0 <= sc < N_SC and 0 <= a0 <= 3 and 0 <= a1 <= 3 and 0 <= a2 <= 3
         and 0 <= b0 <= 3 and 0 <= b1 <= 3 and 0 <= b2 <= 3,
         shard={"sc": range(N_SC)},
         sym=["a0..a2, b0..b2: the hash seed of two interpreter processes, as choice integers that decide every set/frozenset iteration order and every str hash value"],
         sel=["sc: scenario (text-document extraction with duplicates, document with dependencies and head_content, attribute/class merging, "
              "list rendering, head_content names, json mode)"],
         targets=[],
         stubs=["hash-seed model: htmltools re-loaded from /repo's current source with set/frozenset/hash() rewritten to solver-controlled versions "
                "(engine/stubs/ndhash.py); id()-derived text is not modelled"],
         replay_native=_replay_seed,
         timeout={"quick": 300, "thorough": 900})
def h_seed(sc: int, a0: int, a1: int, a2: int, b0: int, b1: int, b2: int) -> bool:
    """the same construction yields identical output whatever the hash seed"""
    h = ndhash.load()
    ndhash.set_run(ndhash.Run([a0, a1, a2]))
    one = scenario(h, sc)
    ndhash.set_run(ndhash.Run([b0, b1, b2]))
    two = scenario(h, sc)
    return one == two


@harness("C18", pre=lambda B, k: 0 <= k <= 1, sel=["k: sanity of the hash-seed model itself"], targets=[])
def h_seed_model_sane(k: int) -> bool:
    """the model is not vacuous: the rewritten package contains nondeterministic sets, and a set iterated under two
    different choice vectors can come out in different orders"""
    rw = ndhash.rewrites()
    if k == 0:
        return sum(rw.values()) >= 1 and isinstance(ndhash.load()._core._VOID_TAG_NAMES, ndhash.NDSet)
    ndhash.set_run(ndhash.Run([0, 0]))
    a = list(ndhash.NDSet(["x", "y", "z"]))
    ndhash.set_run(ndhash.Run([1, 1]))
    b = list(ndhash.NDSet(["x", "y", "z"]))
    return a != b and sorted(a) == sorted(b)


# ---------------------------------------------------------------------------
N_ACT = 8


def activity(a: int) -> None:
    """something built / rendered earlier in the process, sharing names and content with the scenarios"""
    if a == 0:
        return
    if a == 1:
        str(Tag("div", HTMLDependency("z", "9.9"), head_content(Tag("title", "t"))))
    elif a == 2:
        HTMLDocument(Tag("html", Tag("body", "x")), lang="zz", class_="k").render()
    elif a == 3:
        htmltools.html_dependency_render_mode = "json"
        try:
            str(TagList(HTMLDependency("q", "1.0")))
        finally:
            htmltools.html_dependency_render_mode = "invisible"
    elif a == 4:
        t = Tag("i", class_="a")
        t.add_class("zz").tagify().render()
        scenario(htmltools, 2)
    elif a == 5:
        for sc in range(N_SC):
            scenario(htmltools, sc)
    elif a == 6:
        HTMLTextDocument(HTMLDependency("a", "2.0", head="<!--a-->").serialize_to_script_json().get_html_string() + "@@",
                         deps_replace_pattern="@@").render()
    else:
        x = Tag("div", "k")
        saved = sys.displayhook
        try:
            with x:
                sys.displayhook("v")
        except Exception:
            pass
        finally:
            sys.displayhook = saved


def _history_body(a: int, a2: int, sc: int) -> bool:
    first = scenario(htmltools, sc)
    activity(a)
    activity(a2)
    return scenario(htmltools, sc) == first and htmltools.html_dependency_render_mode == "invisible"


@harness("C18", pre=lambda B, a, a2, sc: 0 <= a < N_ACT and 0 <= a2 < N_ACT and 0 <= sc < N_SC,
         shard={"sc": range(N_SC)},
         sel=["a, a2: two earlier activities (rendering same-named dependencies, a document with html attributes, json mode, class edits, every scenario, text document, with-block)",
              "sc: the scenario whose output is compared before and after"],
         targets=["htmltools._core.HTMLDocument.render", "htmltools._core._render_tag_or_taglist"])
def h_history(a: int, a2: int, sc: int) -> bool:
    """the same construction yields the same output regardless of what was built or rendered earlier in the process"""
    return concrete(_history_body, conc(a, 0, N_ACT - 1), conc(a2, 0, N_ACT - 1), conc(sc, 0, N_SC - 1))


# ---------------------------------------------------------------------------

def _hex6(c: int) -> str:
    out = ""
    for shift in (1048576, 65536, 4096, 256, 16, 1):
        d = (c // shift) % 16
        out += chr(48 + d + 7 * (d // 10))
    return out


def injective_digest(s: str) -> str:
    """stand-in for sha1: deterministic and collision-free by construction (fixed-width hex of every code point)"""
    out = ""
    for ch in s:
        out += _hex6(ord(ch))
    return out


def _pre_hc(B, ks, kt, s, t):
    return 0 <= ks <= 1 and 0 <= kt <= 1 and len(s) <= B["L"] and len(t) <= B["L"]


@harness("C18", pre=_pre_hc, bounds={"quick": {"L": 1}, "thorough": {"L": 2}},
         shard={"ks": range(2), "kt": range(2)},
         sym=["s, t: two head_content payloads, str over all code points, len <= L"],
         sel=["ks, kt: payload given as plain text or as HTML()"],
         targets=["htmltools._core.head_content"],
         stubs=["hash_deterministic (sha1) replaced by an injective digest: 'SHA-1 is deterministic and collision-free' made literal"],
         timeout={"quick": 300, "thorough": 1500})
def h_headcontent_name(ks: int, kt: int, s: str, t: str) -> bool:
    """head_content names are a function of the rendered content only: equal content <=> equal name; equal content is
    included once per document and different content is never merged"""
    saved = core.hash_deterministic
    core.hash_deterministic = injective_digest
    try:
        ps = HTML(s) if ks == 1 else s
        pt = HTML(t) if kt == 1 else t
        a, b = head_content(ps), head_content(pt)
        rs = s if ks == 1 else ref_escape_text(s)
        rt = t if kt == 1 else ref_escape_text(t)
        same = rs == rt
        if (a.name == b.name) != same:
            return False
        return a.name.startswith("headcontent_") and head_content(ps).name == a.name
    finally:
        core.hash_deterministic = saved


@harness("C18", pre=lambda B, k: 0 <= k <= 13, sel=["k: payload catalogue (14 payloads: text, tags, HTML(), empty, non-ASCII, equal text as str and HTML(), three pairs of 6 KB / 140 KB / 1.2 MB payloads differing in one middle character)"], targets=["htmltools._util.hash_deterministic", "htmltools._core.head_content"])
def h_headcontent_sha1(k: int) -> bool:
    """with the real digest: the name is 'headcontent_' + sha1(rendered content), nothing else"""
    return concrete(_sha1_body, conc(k, 0, 7))


def _sha1_body(k: int) -> bool:
    payloads = [("t",), (Tag("title", "x"),), ("a", HTML("<b>")), (), (Tag("style", "p{}"), None), ("é☃",),
                ("x<y&",), (HTML("x<y&"),),        # the same text as plain string and as HTML(): different rendered content
                # large payloads of equal length that agree on long prefixes and suffixes and differ in one character in the middle
                # (inlined bundles): sizes on both sides of 4 KiB, 64 KiB and 1 MiB
                (HTML("<script>" + "a" * 3000 + "1" + "b" * 3000 + "</script>"),), (HTML("<script>" + "a" * 3000 + "2" + "b" * 3000 + "</script>"),),
                (HTML("<script>" + "a" * 70000 + "1" + "b" * 70000 + "</script>"),), (HTML("<script>" + "a" * 70000 + "2" + "b" * 70000 + "</script>"),),
                (HTML("<style>" + "c" * 600000 + "1" + "d" * 600000 + "</style>"),), (HTML("<style>" + "c" * 600000 + "2" + "d" * 600000 + "</style>"),)]
    args = payloads[k]
    want = "headcontent_" + hashlib.sha1(TagList(*args).get_html_string().encode("utf-8")).hexdigest()
    d1, d2 = head_content(*args), head_content(*args)
    if not (d1.name == want and d2.name == want and str(d1.version) == "0.0" and d1 == d2):
        return False
    # equal content is included once per document and different content is never merged
    others = [head_content(*p) for p in payloads]
    r = HTMLDocument(Tag("div", d1, Tag("p", d2), *others)).render()
    names = [d.name for d in r["dependencies"]]
    return len(names) == len(payloads) and len(set(names)) == len(payloads) and r["html"].count("<title>x</title>") == 1
