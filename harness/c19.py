"""C19 Every tag function creates its own element with the documented default."""
from __future__ import annotations

import ast
import inspect
import os

import htmltools
from htmltools import Tag, svg, tags

from engine.api import harness, pick

_REPO = os.path.dirname(os.path.dirname(os.path.abspath(htmltools.__file__)))


def _inline_names():
    """The project's inline/block classification, read from the generator's source on every run."""
    src = open(os.path.join(_REPO, "scripts", "generate_tags.py")).read()
    for node in ast.parse(src).body:
        if isinstance(node, ast.Assign) and any(isinstance(t, ast.Name) and t.id == "_INLINE_TAG_NAMES" for t in node.targets):
            return set(ast.literal_eval(node.value))
    raise RuntimeError("_INLINE_TAG_NAMES not found in scripts/generate_tags.py")


INLINE = _inline_names()


def _functions(mod):
    return sorted((n, f) for n, f in vars(mod).items() if inspect.isfunction(f) and f.__module__ == mod.__name__ and not n.startswith("_"))


TAGS = _functions(tags)
SVG = _functions(svg)
SHORTCUTS = ["a", "br", "code", "div", "em", "h1", "h2", "h3", "h4", "h5", "h6", "hr", "img", "p", "pre", "span", "strong"]
# (kind, name, function, function it must be identical to)
CATALOGUE = [("tags", n, f) for n, f in TAGS] + [("svg", n, f) for n, f in SVG] + \
            [("top", n, getattr(htmltools, n, None)) for n in SHORTCUTS]
GROUP = 12
N_GROUPS = (len(CATALOGUE) + GROUP - 1) // GROUP

_ALPHA = "x_-"


def _pre(B, g, j, ws, n, c0, c1, s, v):
    return 0 <= g < N_GROUPS and 0 <= j < GROUP and g * GROUP + j < len(CATALOGUE) and 0 <= ws <= 5 \
        and 1 <= n <= 2 and 0 <= c0 <= 2 and 0 <= c1 <= 2 and (n == 2 or c1 == 0) and len(s) <= B["L"] and len(v) <= B["L"]


@harness("C19", pre=_pre, bounds={"quick": {"L": 1}, "thorough": {"L": 2}},
         shard={"g": range(N_GROUPS)},
         sym=["s: child text, v: attribute value; str over all code points, len <= L"],
         sel=["g, j: index into the catalogue of all functions of htmltools.tags, htmltools.svg and the 17 top-level shortcuts (exhaustive)",
              "ws: _add_ws default / True / False / three non-bool values", "n, c0, c1: keyword attribute name over {x,_,-}"],
         targets=["htmltools._core.Tag.__init__"],
         timeout={"quick": 200, "thorough": 900})
def h_tag_function(g: int, j: int, ws: int, n: int, c0: int, c1: int, s: str, v: str) -> bool:
    kind, name, f = pick(j, CATALOGUE[g * GROUP:(g + 1) * GROUP])
    if f is None:
        return False
    if kind == "top" and f is not getattr(tags, name, None):
        return False
    key = pick(c0, _ALPHA) + (pick(c1, _ALPHA) if n == 2 else "")
    # several keyword attributes, in an order that must be preserved, including names a wrapper might special-case
    kw = {key: v, "for_": "f", "class_": "c", "zz": "1", "style": "a:b;", "type": "t", "value": "v"}
    default = name not in INLINE
    child = Tag("b")
    if ws >= 3:
        bad = pick(ws - 3, [1, "yes", None])
        try:
            f(s, _add_ws=bad, **kw)
        except TypeError:
            return True
        return False
    exp_ws = default if ws == 0 else ws == 1
    # an attribute dict is attributes and nothing else: keys spelt like the constructor's own parameters are ordinary attribute names
    # (the value of "_add_ws" is the opposite of the flag the call must end up with)
    odd = {"_add_ws": not exp_ws, "_name": "nm", "children": "ch"}
    if ws == 0:
        t = f(s, {"id": v}, [child, None, s], odd, **kw)
    else:
        t = f(s, {"id": v}, [child, None, s], odd, _add_ws=exp_ws, **kw)
    ref = Tag(name, s, {"id": v}, [child, None, s], odd, _add_ws=exp_ws, **kw)
    if type(t) is not Tag or t.name != name or t.add_ws is not exp_ws:
        return False
    if t.attrs.get("-add-ws") != (None if exp_ws else "") or t.attrs.get("-name") != "nm" or t.attrs.get("children") != "ch":
        return False
    if list(t.attrs.items()) != list(ref.attrs.items()):
        return False
    kids = list(t.children)
    return len(kids) == 3 and kids[0] == s and kids[1] is child and kids[2] == s and t == ref


@harness("C19", pre=lambda B, k: 0 <= k <= 2, sel=["k: catalogue size checks"], targets=[], expect_witness=True)
def h_catalogue(k: int) -> bool:
    """The catalogue itself: 113 HTML and 66 SVG functions, 17 shortcuts re-exported at top level and listed in __all__."""
    if k == 0:
        return len(TAGS) >= 113 and all(callable(f) for _, f in TAGS)
    if k == 1:
        return len(SVG) >= 66
    return all(n in htmltools.__all__ and getattr(htmltools, n) is getattr(tags, n) for n in SHORTCUTS) \
        and htmltools.tags is tags and htmltools.svg is svg
