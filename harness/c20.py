"""C20 JSX components convert purely and surface all dependencies."""
from __future__ import annotations

import os

from htmltools import HTML, HTMLDependency, MetadataNode, Tag, TagList
from htmltools._jsx import JSXTag, jsx, jsx_tag_create

from engine.api import conc, concrete, harness, pick
from oracles.snapshot import snap
from oracles.util import MARK, MARK2, subst


class TFn:
    def __init__(self, fn):
        self.fn = fn

    def tagify(self):
        return self.fn()


def dep(n: str) -> HTMLDependency:
    return HTMLDependency(n, "1.0", head="<!--" + n + "-->")


N_CHILD = 10
N_PROP = 16


def mk_child(k: int, i: int, names: list, s: str = "txt"):
    t = str(i)
    if k == 0:
        return None
    if k == 1:
        return s + t
    if k == 2:
        return Tag("div", {"id": "d" + t, "class": "c"}, s, Tag("b", "bold", _add_ws=False))
    if k == 3:
        names.append("in-comp" + t)
        return JSXTag("Inner", "ic" + t, dep("in-comp" + t), size=3)
    if k == 4:
        names.append("child" + t)
        return dep("child" + t)
    if k == 5:
        names.append("exp" + t)
        return TFn(lambda: Tag("span", "e" + t, dep("exp" + t), _add_ws=False))
    if k == 6:
        return TFn(lambda: "expanded" + t)
    if k == 7:
        names.append("deep" + t)
        return Tag("section", JSXTag("Deep", Tag("i", dep("deep" + t), "x")), "tail")
    if k == 8:
        return MetadataNode()
    names.append("lst" + t)
    return TFn(lambda: TagList("a" + t, Tag("p", dep("lst" + t))))      # expansion is a TagList (known finding region)


def mk_prop(k: int, names: list, v: str = "val"):
    """returns (kwargs for the component, expected JS fragments per normalised prop name)"""
    if k == 0:
        return {}, {}
    if k == 1:
        return {"label": v}, {"label": '"' + v.replace('"', '\\"') + '"'}
    if k == 2:
        return {"nothing": None}, {"nothing": "null"}
    if k == 3:
        return {"flag": True, "off": False}, {"flag": "true", "off": "false"}
    if k == 4:
        return {"count": 42}, {"count": "42"}
    if k == 5:
        return {"ratio": 1.5}, {"ratio": "1.5"}
    if k == 6:
        return {"items": [1, v, None, (True, 2.5)]}, {"items": '[1,"' + v.replace('"', '\\"') + '",null,[true,2.5]]'}
    if k == 7:
        return {"opts": {"a": 1, "b": [True], "c": {"d": v}}}, {"opts": '{"a":1,"b":[true],"c":{"d":"' + v.replace('"', '\\"') + '"}}'}
    if k == 8:
        # a jsx() expression and a plain string with exactly the same text must still be written differently
        return {"onClick": jsx("() => f(1)"), "same": "() => f(1)", "go": "reset", "goX": jsx("reset")}, \
            {"onClick": "()=>f(1)", "same": '"() => f(1)"', "go": '"reset"', "goX": "reset"}
    if k == 9:
        names.append("prop-tag")
        return {"icon": Tag("i", dep("prop-tag"), "x", class_="k")}, {"icon": "React.createElement('i',{\"class\":\"k\"},\"x\")"}
    if k == 10:
        names.append("prop-comp")
        return {"slot": JSXTag("Slot", dep("prop-comp"), "y", n=1)}, {"slot": 'React.createElement(Slot,{"n":1},"y")'}
    if k == 11:
        return {"style": "color:red;font-size:1px"}, {"style": '{"color":"red","font-size":"1px"}'}
    if k == 12:
        return {"style": {"color": v}}, {"style": '{"color":"' + v.replace('"', '\\"') + '"}'}
    if k == 13:
        return {"class_": "a", "data_x": v, "aria_label_": "z"}, {"class": '"a"', "data-x": '"' + v.replace('"', '\\"') + '"', "aria-label": '"z"'}
    if k == 14:
        names.append("prop-exp")
        return {"body": TFn(lambda: Tag("em", "q", dep("prop-exp"), _add_ws=False))}, {"body": "React.createElement('em',{},\"q\")"}
    return {"a": 1, "b": "two", "c": None}, {"a": "1", "b": '"two"', "c": "null"}


def build(k0: int, k1: int, p0: int, p1: int, s: str = "txt", v: str = "val"):
    names: list = []
    kids = [c for c in (mk_child(k0, 0, names, s), mk_child(k1, 1, names, s)) if c is not None]
    kw, js = mk_prop(p0, names, v)
    names2: list = []
    kw2, js2 = mk_prop(p1, names2, v)
    added = False
    for k, val in kw2.items():
        if k not in kw:
            kw[k] = val
            added = True
    if added:
        names.extend(names2)
    for k, val in js2.items():
        if k not in js:
            js[k] = val
    comp = JSXTag("Foo.Bar", *kids[:1], **kw)
    if len(kids) > 1:
        comp.append(kids[1])      # "however it was added"
    return comp, names, js


def component_js(tag: Tag) -> str:
    """the React.createElement expression inside the generated <script>"""
    text = str(tag.children[0])
    a = text.index("ReactDOM.render(\n") + len("ReactDOM.render(\n")
    b = text.index("\n  , container);")
    return text[a:b]


def squeeze(js: str) -> str:
    """remove whitespace outside double-quoted string literals"""
    out, instr, esc = "", False, False
    for ch in js:
        if instr:
            out += ch
            if esc:
                esc = False
            elif ch == "\\":
                esc = True
            elif ch == '"':
                instr = False
        elif ch == '"':
            instr = True
            out += ch
        elif ch not in " \n\t":
            out += ch
    return out


def lit(s: str) -> str:
    return '"' + s.replace('"', '\\"') + '"'


def ref_js(x, js_props=None) -> str:
    """whitespace-free reference rendering of a (tagified) component / tag / string"""
    if isinstance(x, MetadataNode):
        return ""
    if isinstance(x, str):
        return lit(x)
    if isinstance(x, JSXTag):
        nm = x.name
    else:
        nm = "'" + x.name + "'"
    kids = [ref_js(c) for c in x.children]
    kids = [k for k in kids if k != ""]
    if len(x.attrs) == 0 and len(x.children) == 0:
        return "React.createElement(" + nm + ")"
    props = []
    for k, v in x.attrs.items():
        if js_props is not None and k in js_props:
            props.append('"' + k + '":' + js_props[k])
        else:
            props.append('"' + k + '":' + ref_val(v))
    return "React.createElement(" + nm + ",{" + ",".join(props) + "}" + "".join("," + k for k in kids) + ")"


def ref_val(v) -> str:
    if v is None:
        return "null"
    if isinstance(v, (Tag, JSXTag)):
        return ref_js(v)
    if isinstance(v, bool):
        return "true" if v else "false"
    if isinstance(v, (list, tuple)):
        return "[" + ",".join(ref_val(y) for y in v) + "]"
    if isinstance(v, dict):
        return "{" + ",".join('"' + str(k) + '":' + ref_val(y) for k, y in v.items()) + "}"
    if isinstance(v, (jsx, int, float)):
        return squeeze(str(v))
    return lit(str(v))


def _has_taglist_expansion(k0: int, k1: int) -> bool:
    return k0 == 9 or k1 == 9


def _pure_body(k0: int, k1: int, p0: int, p1: int) -> bool:
    comp, names, js = build(k0, k1, p0, p1)
    before = snap(comp)
    r1 = comp.tagify()
    if snap(comp) != before:
        return False
    s1 = str(comp)
    if snap(comp) != before:
        return False
    r2 = comp.tagify()
    return snap(comp) == before and str(r1) == str(r2) == s1 and str(comp) == s1 and repr(comp) == s1 and comp._repr_html_() == s1


def _pre_sel(B, k0, k1, p0, p1):
    return 0 <= k0 < N_CHILD and 0 <= k1 < N_CHILD and 0 <= p0 < N_PROP and 0 <= p1 < N_PROP


def _region_taglist(k0, k1, p0, p1, **_kw):
    return _has_taglist_expansion(k0, k1)


_region_taglist.shard_filter = lambda shard: shard.get("k0") == 9 or shard.get("k1") == 9      # type: ignore[attr-defined]
_region_taglist.shard_inside = lambda shard: shard.get("k0") == 9 or shard.get("k1") == 9      # type: ignore[attr-defined]

_SEL = ["k0, k1: children (absent, string, tag with attributes, nested component with a dependency, dependency, tagifiable expanding to a tag with a dependency / "
        "to a string, tag holding a component holding a dependency, bare metadata node, tagifiable expanding to a TagList)",
        "p0, p1: props (string, None, booleans, int, float, list/tuple, nested dict, jsx() expression, tag-valued, component-valued, style string, style dict, "
        "names needing normalisation, tagifiable-valued, several)"]


@harness("C20", pre=_pre_sel, shard={"k0": range(N_CHILD), "k1": range(N_CHILD)}, sel=_SEL,
         regions={"taglist_expansion": _region_taglist},
         targets=["htmltools._jsx.JSXTag.tagify", "htmltools._jsx._walk_attrs_and_children", "htmltools._jsx._render_react_js", "htmltools._jsx.JSXTag.__copy__"],
         outside="metadata inside list- or dict-valued props; HTML() children of tags inside a component (documented upstream limitation #26/#28)")
def h_jsx_pure(k0: int, k1: int, p0: int, p1: int) -> bool:
    """converting a component (tagify()/str(), any number of times) leaves it and everything reachable from it unchanged"""
    return concrete(_pure_body, conc(k0, 0, N_CHILD - 1), conc(k1, 0, N_CHILD - 1), conc(p0, 0, N_PROP - 1), conc(p1, 0, N_PROP - 1))


def _deps_body(k0: int, k1: int, p0: int, p1: int) -> bool:
    comp, names, js = build(k0, k1, p0, p1)
    r = comp.tagify()
    if not (isinstance(r, Tag) and r.name == "script"):
        return False
    got = [d.name for d in r.get_dependencies(dedup=False)]
    if got[:2] != ["react", "react-dom"] or sorted(got[2:]) != sorted(names):
        return False
    for d in r.get_dependencies()[:2]:
        m = d.source_path_map()
        for sc in d.script:
            if not os.path.isfile(os.path.join(m["source"], sc["src"])):
                return False
    # exactly one script element; inside a document the dependencies are hoisted
    html = Tag("div", comp).render()
    names_r = [d.name for d in html["dependencies"]]
    return html["html"].count("<script") == 1 and all(n in names_r for n in names + ["react", "react-dom"])


@harness("C20", pre=_pre_sel, shard={"k0": range(N_CHILD), "k1": range(N_CHILD)}, sel=_SEL,
         regions={"taglist_expansion": _region_taglist},
         targets=["htmltools._jsx.JSXTag.tagify", "htmltools._jsx._lib_dependency"])
def h_jsx_deps(k0: int, k1: int, p0: int, p1: int) -> bool:
    """one <script> element carrying react, react-dom (whose files exist in the package) and every metadata node found among
    children, nested tags and components, tag/component-valued props and expansions of tagifiable descendants"""
    return concrete(_deps_body, conc(k0, 0, N_CHILD - 1), conc(k1, 0, N_CHILD - 1), conc(p0, 0, N_PROP - 1), conc(p1, 0, N_PROP - 1))


def _js_body(k0: int, k1: int, p0: int, p1: int) -> bool:
    comp, names, js = build(k0, k1, p0, p1)
    out = squeeze(component_js(comp.tagify()))
    # reference on the component with tagifiable children/props expanded by hand
    exp_kids = []
    for c in comp.children:
        exp_kids.append(c.tagify() if hasattr(c, "tagify") and not isinstance(c, (Tag, JSXTag)) else c)
    model = JSXTag("Foo.Bar", *exp_kids)
    for k, v in comp.attrs.items():
        model.attrs[k] = v
    return out == ref_js(model, js)


@harness("C20", pre=_pre_sel, shard={"k0": range(N_CHILD), "k1": range(N_CHILD)}, sel=_SEL,
         regions={"taglist_expansion": _region_taglist},
         targets=["htmltools._jsx._render_react_js", "htmltools._jsx._serialize_attr", "htmltools._jsx._serialize_style_attr"])
def h_jsx_js(k0: int, k1: int, p0: int, p1: int) -> bool:
    """the React.createElement expression mirrors the component (compared modulo whitespace outside string literals)"""
    return concrete(_js_body, conc(k0, 0, N_CHILD - 1), conc(k1, 0, N_CHILD - 1), conc(p0, 0, N_PROP - 1), conc(p1, 0, N_PROP - 1))


def _plain(s: str) -> bool:
    for ch in s:
        if ch == "\\" or ch == "\r" or ch == "\n":
            return False
    return True


@harness("C20", pre=lambda B, k, s: 0 <= k <= 5 and len(s) <= B["L"] and _plain(s),
         bounds={"quick": {"L": 3}, "thorough": {"L": 5}},
         shard={"k": range(6)},
         sym=["s: str over all code points except backslash, CR, LF; len <= L"],
         sel=["k: string child / string prop / inside a list / inside a nested dict / style dict value / whole small component"],
         targets=["htmltools._jsx._render_react_js", "htmltools._jsx._serialize_attr"],
         timeout={"quick": 300, "thorough": 1500},
         note="the serialiser kernels are called directly with the symbolic string; the whole conversion with symbolic strings costs >10 s per path "
              "(copying and walking under the tracer), so whole components are checked with marker strings in h_jsx_js")
def h_jsx_strings(k: int, s: str) -> bool:
    """strings free of backslashes and line breaks are written as double-quoted literals denoting the original text"""
    import htmltools._jsx as _j
    _render_react_js = getattr(_j, "_render_react_js", None)
    _serialize_attr = getattr(_j, "_serialize_attr", None)
    _serialize_style_attr = getattr(_j, "_serialize_style_attr", None)
    if _render_react_js is None or _serialize_attr is None or _serialize_style_attr is None:
        return True     # private serialiser kernels were refactored away: whole components are still checked by h_jsx_js
    want = '"' + _esc(s) + '"'
    if k == 0:
        return _denotes(_render_react_js(s, 0, "\n"), s, want) and _denotes(_render_react_js(s, 2, "\n").strip(" "), s, want)
    if k == 1:
        return _denotes(_serialize_attr(s), s, want)
    if k == 2:
        return _serialize_attr([1, s, (s,)]) == "[1, " + want + ", [" + want + "]]"
    if k == 3:
        return _serialize_attr({"a": {"b": s}, "c": None}) == '{"a": {"b": ' + want + '}, "c": null}'
    if k == 4:
        return _serialize_style_attr({"color": s}) == '{"color": ' + want + "}"
    comp = JSXTag("C", s, p=s)
    return _render_react_js(comp, 0, "\n") == 'React.createElement(\n  C, {"p": ' + want + "},\n  " + want + "\n)"


def js_decode(litr: str):
    """the text a double-quoted JavaScript string literal denotes, or None if it is not one literal"""
    n = len(litr)
    if n < 2 or litr[0] != '"' or litr[n - 1] != '"':
        return None
    out = ""
    i = 1
    while i < n - 1:
        c = litr[i]
        if c == '"' or c == "\n" or c == "\r":
            return None
        if c != "\\":
            out += c
            i += 1
            continue
        if i + 1 >= n - 1:
            return None
        e = litr[i + 1]
        simple = {'"': '"', "\\": "\\", "/": "/", "b": "\b", "f": "\f", "n": "\n", "r": "\r", "t": "\t", "'": "'", "v": "\v", "0": "\0"}
        if e in simple:
            out += simple[e]
            i += 2
        elif e == "u" and i + 5 < n:
            try:
                out += chr(int(litr[i + 2:i + 6], 16))
            except ValueError:
                return None
            i += 6
        elif e == "x" and i + 3 < n:
            try:
                out += chr(int(litr[i + 2:i + 4], 16))
            except ValueError:
                return None
            i += 4
        else:
            return None
    return out


def _denotes(got: str, s: str, want: str) -> bool:
    """`got` is the expected raw literal, or any other double-quoted literal that denotes the same text"""
    if got == want:
        return True
    d = js_decode(got)
    return d is not None and d == s


def _esc(s: str) -> str:
    out = ""
    for ch in s:
        out += '\\"' if ch == '"' else ch
    return out


@harness("C20", pre=lambda B, k: 0 <= k <= 3, sel=["k: allow-list cases"], targets=["htmltools._jsx.JSXTag.__init__"])
def h_jsx_allowlist(k: int) -> bool:
    """a prop outside a declared allow-list is rejected at construction"""
    Foo = jsx_tag_create("Foo", allowedProps=["a", "b_c"])
    if k == 0:
        return isinstance(Foo("x", a=1, b_c=2), JSXTag) and list(Foo(a=1, b_c=2).attrs) == ["a", "b-c"]
    if k == 1:
        try:
            Foo(a=1, zzz=2)
        except NotImplementedError:
            return True
        return False
    if k == 2:
        try:
            JSXTag("lower")
        except NotImplementedError:
            return True
        return False
    Open = jsx_tag_create("Open")
    return list(Open(anything_=1, other_thing=2).attrs) == ["anything", "other-thing"]


N_PLACE = 6


def _place(kids: list, kw: dict, where: int, d, tag: str) -> None:
    if where == 0:
        kids.append(d)
    elif where == 1:
        kids.append(Tag("div", "n" + tag, Tag("i", d)))
    elif where == 2:
        kids.append(JSXTag("Inner" + tag, d, "z"))
    elif where == 3:
        kw["icon" + tag] = Tag("i", d, "x")
    elif where == 4:
        kw["slot" + tag] = JSXTag("Slot" + tag, "y", d)
    else:
        kids.append(TFn(lambda: Tag("span", "e" + tag, d, _add_ws=False)))


def _same_name_body(w0: int, w1: int, v: int) -> bool:
    """metadata nodes are carried one by one: two dependencies that share a name but differ (version, or content at equal
    version), or are equal copies, are all in the script element - choosing among them is render-time resolution (C10)"""
    first = HTMLDependency("widgetlib", "1.0.0", head="<!--w1-->")
    second = [HTMLDependency("widgetlib", "2.1.0", head="<!--w2-->"), HTMLDependency("widgetlib", "0.9", head="<!--w0-->"),
              HTMLDependency("widgetlib", "1.0.0", head="<!--other content-->"), HTMLDependency("widgetlib", "1.0.0", head="<!--w1-->")][v]
    kids: list = []
    kw: dict = {}
    _place(kids, kw, w0, first, "A")
    _place(kids, kw, w1, second, "B")
    comp = JSXTag("Foo", *kids, **kw)
    r = comp.tagify()
    if not (isinstance(r, Tag) and r.name == "script"):
        return False
    got = [(d.name, str(d.version), str(d.head)) for d in r.get_dependencies(dedup=False)]
    want = [(d.name, str(d.version), str(d.head)) for d in (first, second)]
    if [g[0] for g in got[:2]] != ["react", "react-dom"]:
        return False
    if v == 3:
        # two equal copies: carrying one of them already carries "every metadata node" up to equality - do not demand both
        if not (1 <= len(got[2:]) <= 2 and set(got[2:]) == set(want)):
            return False
    elif sorted(got[2:]) != sorted(want):
        return False
    # the document then resolves to the highest version (earliest on ties), whatever order the walk found them in
    names = [(d.name, str(d.version)) for d in Tag("div", comp).render()["dependencies"]]
    best = ("widgetlib", "2.1.0") if v == 0 else ("widgetlib", "1.0.0")
    return names.count(best) == 1 and len([n for n in names if n[0] == "widgetlib"]) == 1


@harness("C20", pre=lambda B, w0, w1, v: 0 <= w0 < N_PLACE and 0 <= w1 < N_PLACE and 0 <= v <= 3, shard={"w0": range(N_PLACE)},
         sel=["w0, w1: where two same-named dependencies sit (child, nested tag, nested component, tag-valued prop, component-valued prop, expansion of a tagifiable child)",
              "v: the second is a higher version / a lower version / equal version with different content / an equal copy"],
         targets=["htmltools._jsx.JSXTag.tagify"],
         outside="more than two same-named dependencies")
def h_jsx_same_name(w0: int, w1: int, v: int) -> bool:
    return concrete(_same_name_body, conc(w0, 0, N_PLACE - 1), conc(w1, 0, N_PLACE - 1), conc(v, 0, 3))
