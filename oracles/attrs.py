"""Reference attribute-name normalisation and merging, written from the statement of C15."""
from __future__ import annotations

from typing import Any, List, Tuple

from htmltools import HTML

from oracles.escape import ref_escape_attr


def ref_attr_name(raw: str) -> str:
    """one trailing underscore removed; remaining underscores turned into hyphens"""
    n = len(raw)
    if n > 0 and raw[n - 1] == "_":
        raw = raw[: n - 1]
    out = ""
    for c in raw:
        out += "-" if c == "_" else c
    return out


def ref_value(v: Any):
    """None/False dropped (-> None), True -> '', numbers -> text, str/HTML kept. Returns (is_html, text) or None."""
    if v is None or v is False:
        return None
    if v is True:
        return (False, "")
    if isinstance(v, HTML):
        return (True, v.as_string())
    if isinstance(v, str):
        return (False, v)
    return (False, str(v))


def ref_merge(calls: List[List[Tuple[str, Any]]]) -> List[Tuple[str, bool, str]]:
    """calls = the (raw name, value) items of each positional dict, left to right, then of the keywords.
    Returns [(name, is_html, text)] in order of first (kept) appearance; all values for one normalised
    name joined by single spaces in argument order; if HTML() and plain values are mixed the result is
    HTML() whose plain parts are attribute-escaped (so that the rendered value is the same as if each
    part had been rendered on its own)."""
    order: List[str] = []
    parts = {}
    for items in calls:
        for raw, v in items:
            rv = ref_value(v)
            if rv is None:
                continue
            nm = ref_attr_name(raw)
            if nm not in parts:
                parts[nm] = []
                order.append(nm)
            parts[nm].append(rv)
    out = []
    for nm in order:
        ps = parts[nm]
        any_html = False
        for is_html, _ in ps:
            if is_html:
                any_html = True
        txt = ""
        first = True
        for is_html, t in ps:
            if not first:
                txt += " "
            first = False
            txt += t if (is_html or not any_html) else ref_escape_attr(t)
        out.append((nm, any_html, txt))
    return out


def attrs_as_list(attrs) -> List[Tuple[str, bool, str]]:
    return [(k, isinstance(v, HTML), v.as_string() if isinstance(v, HTML) else v) for k, v in attrs.items()]
