"""spec_document: the <html> tree HTMLDocument.render() must produce, built from the statement of C11."""
from __future__ import annotations

import urllib.parse
from typing import Any, List, Optional

from htmltools import HTMLDependency, Tag, TagList


def doc_order_deps(x, out=None) -> List[HTMLDependency]:
    if out is None:
        out = []
    if isinstance(x, HTMLDependency):
        out.append(x)
    elif isinstance(x, Tag):
        for c in x.children:
            doc_order_deps(c, out)
    elif isinstance(x, (list, TagList)):
        for c in x:
            doc_order_deps(c, out)
    return out


def resolve(deps: List[HTMLDependency]) -> List[HTMLDependency]:
    """one per name, highest version, earliest on ties, names by first occurrence (C10)"""
    order, best = [], {}
    for d in deps:
        if d.name not in best:
            order.append(d.name)
            best[d.name] = d
        elif d.version > best[d.name].version:
            best[d.name] = d
    return [best[n] for n in order]


def dep_href(d: HTMLDependency, lib_prefix: Optional[str], include_version: bool) -> str:
    src = d.source
    if src is None:
        return ""
    if "href" in src:
        return src["href"]
    h = d.name + ("-" + str(d.version) if include_version else "")
    return (lib_prefix.rstrip("/") + "/" + h) if lib_prefix else h


def _join(base: str, rel: str) -> str:
    if base == "":
        return rel
    return base + rel if base.endswith("/") else base + "/" + rel


def dep_tags(d: HTMLDependency, lib_prefix: Optional[str], include_version: bool) -> List[Any]:
    """meta, link, script, head - in that order"""
    base = dep_href(d, lib_prefix, include_version)
    out: List[Any] = []
    for m in d.meta:
        out.append(Tag("meta", **m))
    for s in d.stylesheet:
        attrs = {k: (_join(base, urllib.parse.quote(v)) if k == "href" else v) for k, v in s.items()}
        if "rel" in attrs:
            attrs = {k: ("stylesheet" if k == "rel" else v) for k, v in attrs.items()}
        else:
            attrs["rel"] = "stylesheet"
        out.append(Tag("link", **attrs))
    for s in d.script:
        attrs = {k: (_join(base, urllib.parse.quote(v)) if k == "src" else v) for k, v in s.items()}
        out.append(Tag("script", **attrs))
    if d.head is not None:
        out.extend(list(d.head))
    return out


import re as _re

_GEN = _re.compile(r"<(link|script|meta)((?: [^ =>/]+=\"[^\"]*\")*)(/?)>")
_ATTR = _re.compile(r" ([^ =>/]+)=\"([^\"]*)\"")


def norm_attr_order(html: str) -> str:
    """Sort the attributes inside <link>, <script> and <meta> start tags: C11 prescribes which tags are emitted and in
    which order, not the order of attributes inside a generated tag."""
    def fix(m):
        attrs = sorted(_ATTR.findall(m.group(2)))
        return "<" + m.group(1) + "".join(' %s="%s"' % kv for kv in attrs) + m.group(3) + ">"
    return _GEN.sub(fix, html)


def spec_document(content: List[Any], html_attrs: dict, lib_prefix: Optional[str], include_version: bool):
    """content: the (already flat, already tagified) top-level nodes given to HTMLDocument.
    Returns (expected html string, expected dependency list)."""
    sole = content[0] if len(content) == 1 and isinstance(content[0], Tag) else None
    deps = resolve(doc_order_deps(content))
    head_extra: List[Any] = []
    if deps:
        head_extra.append(Tag("script", ";".join(d.name + "[" + str(d.version) + "]" for d in deps), type="application/html-dependencies"))
    for d in deps:
        head_extra.extend(dep_tags(d, lib_prefix, include_version))
    charset = Tag("meta", charset="utf-8")
    if sole is not None and sole.name == "html":
        kids = list(sole.children)
        hi = None
        for i, c in enumerate(kids):
            if isinstance(c, Tag) and c.name == "head":
                hi = i
                break
        if hi is None:
            kids.insert(0, Tag("head", charset, *head_extra))
        else:
            uh = kids[hi]
            kids[hi] = Tag("head", dict(uh.attrs), charset, *list(uh.children), *head_extra, _add_ws=uh.add_ws)
        attrs = dict(sole.attrs)
        html = Tag("html", attrs, *kids, _add_ws=sole.add_ws)
        html.attrs.update(**html_attrs)
    else:
        body = sole if (sole is not None and sole.name == "body") else Tag("body", *content)
        html = Tag("html", Tag("head", charset, *head_extra), body, **html_attrs)
    return "<!DOCTYPE html>\n" + html.get_html_string(), deps
