"""Reference escaping, written per character from the statements of C02 / C03."""
from __future__ import annotations

import html as _html

TEXT_REF = {"&": "&amp;", "<": "&lt;", ">": "&gt;"}
ATTR_REF = {"&": "&amp;", "<": "&lt;", ">": "&gt;", '"': "&quot;", "'": "&apos;", "\r": "&#13;", "\n": "&#10;"}

# "a character reference that decodes to it" is not taken on trust:
for _c, _r in ATTR_REF.items():
    assert _html.unescape(_r) == _c, (_c, _r)


def ref_escape_text(s: str) -> str:
    out = ""
    for c in s:
        if c == "&":
            out += "&amp;"
        elif c == "<":
            out += "&lt;"
        elif c == ">":
            out += "&gt;"
        else:
            out += c
    return out


def ref_escape_attr(s: str) -> str:
    out = ""
    for c in s:
        if c == "&":
            out += "&amp;"
        elif c == "<":
            out += "&lt;"
        elif c == ">":
            out += "&gt;"
        elif c == '"':
            out += "&quot;"
        elif c == "'":
            out += "&apos;"
        elif c == "\r":
            out += "&#13;"
        elif c == "\n":
            out += "&#10;"
        else:
            out += c
    return out
