"""Structural + identity snapshot of everything reachable from an object (for the purity properties)."""
from __future__ import annotations

from typing import Any

from htmltools import HTML, HTMLDependency, HTMLDocument, MetadataNode, Tag, TagList


def snap(x: Any, ident: bool = True, _depth: int = 0) -> Any:
    """Nested tuples; with ident=True mutable containers carry id(), so replacing an object by an equal
    copy is also a change. Leaves by value."""
    if _depth > 40:
        return "<deep>"
    d = _depth + 1
    i = (id(x),) if ident else ()
    if x is None or isinstance(x, (bool, int, float)):
        return ("v", repr(x))
    if isinstance(x, HTML):
        return ("HTML",) + i + (x.as_string(),)
    if isinstance(x, str):
        return ("str", type(x).__name__, str(x))
    if isinstance(x, Tag):
        return ("Tag",) + i + (x.name, x.add_ws, snap(x.attrs, ident, d), snap(x.children, ident, d), x.prev_displayhook is None,
                               tuple(sorted(k for k in x.__dict__ if k not in ("name", "add_ws", "attrs", "children", "prev_displayhook"))))
    if isinstance(x, TagList):
        return ("TagList",) + i + (("data",) + ((id(x.data),) if ident else ()), tuple(snap(c, ident, d) for c in x.data))
    if isinstance(x, HTMLDependency):
        return ("Dep",) + i + (x.name, str(x.version), snap(x.source, ident, d), snap(x.script, ident, d), snap(x.stylesheet, ident, d),
                               snap(x.meta, ident, d), x.all_files, snap(x.head, ident, d))
    if isinstance(x, MetadataNode):
        return ("Meta",) + i + (tuple((k, snap(v, ident, d)) for k, v in sorted(vars(x).items())),)
    if isinstance(x, HTMLDocument):
        return ("Doc",) + i + (snap(x._content, ident, d), snap(x._html_attr_args, ident, d))
    if isinstance(x, dict):
        return (type(x).__name__,) + i + (tuple((k, snap(v, ident, d)) for k, v in x.items()),)
    if isinstance(x, (list, tuple)):
        return (type(x).__name__,) + i + (tuple(snap(v, ident, d) for v in x),)
    if hasattr(x, "__dict__"):
        return ("obj", type(x).__name__) + i + (tuple((k, snap(v, ident, d)) for k, v in sorted(vars(x).items())),)
    return ("other", repr(x))


def identities(x: Any, out=None, _depth: int = 0):
    """ids of tags, child lists, attribute maps and metadata nodes reachable from x"""
    if out is None:
        out = set()
    if _depth > 40:
        return out
    if isinstance(x, Tag):
        out.add(id(x))
        out.add(id(x.attrs))
        identities(x.children, out, _depth + 1)
    elif isinstance(x, TagList):
        out.add(id(x))
        out.add(id(x.data))
        for c in x.data:
            identities(c, out, _depth + 1)
    elif isinstance(x, MetadataNode):
        out.add(id(x))
    return out
