"""Slot grammar of tag trees + executable layout specifications written from C01/C05/C06/C07.

A tree is described twice: as real htmltools objects and as an *abstract* tree of tuples
    ("text", s) | ("html", s) | ("rh", s) | ("meta", obj) | ("el", name, ws, attrs, children)
The specifications below work on the abstract tree only and are written in a different style from
the implementation (line lists instead of a character-stream state machine).
"""
from __future__ import annotations

from typing import Any, List, Tuple

from htmltools import HTML, HTMLDependency, MetadataNode, Tag, TagList

from oracles.escape import ref_escape_attr, ref_escape_text
from oracles.util import RH

VOID = {"area", "base", "br", "col", "command", "embed", "hr", "img", "input", "keygen", "link", "meta",
        "param", "source", "track", "wbr"}

# ---------------------------------------------------------------------------
# building: every builder returns (real object, abstract node)


def b_text(s: str):
    return s, ("text", s)


def b_html(s: str):
    return HTML(s), ("html", s)


def b_rh(s: str):
    return RH(s), ("rh", s)


def b_meta(i: int):
    m = MetadataNode() if i % 2 == 0 else HTMLDependency("dep" + str(i), "1." + str(i), head="<!--dep" + str(i) + "-->")
    return m, ("meta", m)


def b_el(name: str, ws: bool, kids, attrs=None):
    attrs = attrs or []
    real = Tag(name, dict(attrs), *[k[0] for k in kids], _add_ws=ws)
    return real, ("el", name, ws, [(k, v) for k, v in attrs], [k[1] for k in kids])


def b_list(kids):
    return TagList(*[k[0] for k in kids]), [k[1] for k in kids]


# grandchild patterns (children of an element child); i makes the marker texts distinct
N_PAT_INLINE = 6   # patterns 0..5 contain no block tag
N_PAT = 10


def pattern(g: int, i: int):
    t = "g" + str(i)
    if g == 0:
        return []
    if g == 1:
        return [b_text(t)]
    if g == 2:
        return [b_html("<u>" + t + "</u>")]
    if g == 3:
        return [b_text(t), b_el("b", False, [])]
    if g == 4:
        return [b_el("i", False, [b_text(t)]), b_text("z"), b_el("br", False, [])]
    if g == 5:
        return [b_meta(i), b_text(t), b_meta(i + 1)]
    if g == 6:
        return [b_el("p", True, []), b_text(t)]
    if g == 7:
        return [b_text(t), b_el("p", True, [b_text("q")])]
    if g == 8:
        return [b_el("p", True, [b_text("q")]), b_el("hr", True, []), b_el("span", False, [b_text(t)])]
    return [b_rh("<r" + str(i) + "/>"), b_el("ul", True, [b_el("li", True, [b_text(t), b_el("b", False, [b_text("w")])])])]


# catalogue of child variants: (kind, pattern) pairs flattened into one selector
def _catalogue():
    cat = [("absent", None), ("text", None), ("html", None), ("rh", None), ("meta", None), ("textnl", None),
           ("br", None), ("hr", None)]
    for g in range(N_PAT):
        cat.append(("block", g))
    for g in range(N_PAT):
        cat.append(("inline", g))
    cat.append(("textempty", None))     # appended last so that earlier indices stay stable
    cat.append(("htmlempty", None))
    return cat


CATALOGUE = _catalogue()
N_CHILD = len(CATALOGUE)            # 30
VALID_CHILD = [k for k, (kind, g) in enumerate(CATALOGUE) if not (kind == "inline" and g is not None and g >= N_PAT_INLINE)]
INLINE_CHILD = [k for k, (kind, g) in enumerate(CATALOGUE)
                if kind in ("text", "html", "rh", "meta", "textnl", "br", "textempty", "htmlempty") or (kind == "inline" and g < N_PAT_INLINE)]


def child(k: int, i: int):
    """k-th catalogue entry as (real, abstract), or None for 'absent'"""
    kind, g = CATALOGUE[k]
    if kind == "absent":
        return None
    if kind == "text":
        return b_text("t" + str(i))
    if kind == "html":
        return b_html("<u>h" + str(i) + "</u>")
    if kind == "rh":
        return b_rh("<r" + str(i) + "/>")
    if kind == "meta":
        return b_meta(i)
    if kind == "textnl":
        return b_text("a\nb" + str(i))
    if kind == "textempty":
        return b_text("")
    if kind == "htmlempty":
        return b_html("")
    if kind == "br":
        return b_el("br", False, [])
    if kind == "hr":
        return b_el("hr", True, [], [("class", "c" + str(i))])
    if kind == "block":
        return b_el("div", True, pattern(g, i), [("id", "d" + str(i))] if i % 2 else [])
    return b_el("span", False, pattern(g, i), [("title", "s" + str(i))] if i % 2 else [])


# ---------------------------------------------------------------------------
# specifications on abstract trees


def is_meta(a) -> bool:
    return a[0] == "meta"


def is_block(a) -> bool:
    return a[0] == "el" and a[2]


def has_ws_tag(a) -> bool:
    if a[0] != "el":
        return False
    if a[2]:
        return True
    for c in a[4]:
        if has_ws_tag(c):
            return True
    return False


def valid_nesting(a) -> bool:
    """no block tag anywhere below an inline tag"""
    if a[0] != "el":
        return True
    for c in a[4]:
        if not a[2] and has_ws_tag(c):
            return False
        if not valid_nesting(c):
            return False
    return True


def open_tag(a) -> str:
    s = "<" + a[1]
    for k, v in a[3]:
        s += " " + k + '="' + ref_escape_attr(v) + '"'
    return s


def flat(a) -> str:
    """whitespace-free concatenation (the exact rendering of a subtree without whitespace-enabled tags)"""
    if a[0] == "text":
        return ref_escape_text(a[1])
    if a[0] in ("html", "rh"):
        return a[1]
    if a[0] == "meta":
        return ""
    kids = [c for c in a[4] if not is_meta(c)]
    if len(kids) == 0 and a[1] in VOID:
        return open_tag(a) + "/>"
    s = open_tag(a) + ">"
    for c in kids:
        s += flat(c)
    return s + "</" + a[1] + ">"


def sibling_lines(kids, level: int) -> List[str]:
    """maximal runs of adjacent non-block children share one line; each block child has its own lines"""
    lines: List[str] = []
    run = None
    for c in kids:
        if is_meta(c):
            continue
        if is_block(c):
            if run is not None:
                lines.append("  " * level + run)
                run = None
            lines.extend(el_lines(c, level))
        else:
            run = (run or "") + flat(c)
    if run is not None:
        lines.append("  " * level + run)
    return lines


def el_lines(a, level: int) -> List[str]:
    """layout lines of a block element (valid nesting assumed below it)"""
    ind = "  " * level
    kids = [c for c in a[4] if not is_meta(c)]
    if len(kids) == 0:
        return [ind + open_tag(a) + ("/>" if a[1] in VOID else "></" + a[1] + ">")]
    if len(kids) == 1 and kids[0][0] in ("text", "html"):
        return [ind + open_tag(a) + ">" + flat(kids[0]) + "</" + a[1] + ">"]
    return [ind + open_tag(a) + ">"] + sibling_lines(kids, level + 1) + [ind + "</" + a[1] + ">"]


def spec_tag(a, indent: int, eol: str) -> str:
    """C06 for a root element"""
    if a[2]:
        lines = el_lines(a, indent)
    else:
        lines = ["  " * indent + flat(a)]
    return eol.join(lines)


def spec_list(kids, indent: int, eol: str) -> str:
    """C06 for a top-level list"""
    return eol.join(sibling_lines(kids, indent))


def strip_meta(a):
    if a[0] != "el":
        return a
    return ("el", a[1], a[2], a[3], [strip_meta(c) for c in a[4] if not is_meta(c)])


def metas(a) -> List[Any]:
    if a[0] == "meta":
        return [a[1]]
    out: List[Any] = []
    if a[0] == "el":
        for c in a[4]:
            out.extend(metas(c))
    return out


# ---------------------------------------------------------------------------
# C05: whitespace positions


def ws_positions_ok(out: str, block_names) -> bool:
    """Every whitespace run in `out` (whose leaves contain no whitespace) touches an opening or closing
    tag of a block element: it is immediately before '<name' / '</name' of a block tag or immediately
    after the '>' that ends such a tag."""
    n = len(out)
    i = 0
    while i < n:
        if out[i] in " \n\r\t":
            j = i
            while j < n and out[j] in " \n\r\t":
                j += 1
            ok = False
            # after: tag starting at j
            if j < n and out[j] == "<":
                k = j + 1
                if k < n and out[k] == "/":
                    k += 1
                m = k
                while m < n and (out[m].isalnum() or out[m] == "-"):
                    m += 1
                if out[k:m] in block_names:
                    ok = True
            # before: tag ending at i-1
            if not ok and i > 0 and out[i - 1] == ">":
                lt = out.rfind("<", 0, i)
                k = lt + 1
                if k < n and out[k] == "/":
                    k += 1
                m = k
                while m < n and (out[m].isalnum() or out[m] == "-"):
                    m += 1
                if out[k:m] in block_names:
                    ok = True
            if not ok and not _inside_tag(out, i):
                return False
            i = j
        else:
            i += 1
    return True


def _inside_tag(out: str, i: int) -> bool:
    """whitespace between attributes inside a tag is markup, not layout"""
    lt = out.rfind("<", 0, i)
    gt = out.rfind(">", 0, i)
    return lt > gt


def block_names_of(a) -> set:
    s = set()
    if a[0] == "el":
        if a[2]:
            s.add(a[1])
        for c in a[4]:
            s |= block_names_of(c)
    return s
