"""Small helpers shared by harnesses."""
from __future__ import annotations

MARK = "⟪M⟫"   # marker text: contains no character any escaping table touches
MARK2 = "⟪N⟫"


def subst(template: str, marker: str, value: str) -> str:
    """template.replace(marker, value) done by concrete split + concatenation, so that a
    symbolic `value` never has to flow through str.replace."""
    parts = template.split(marker)
    out = parts[0]
    for p in parts[1:]:
        out = out + value + p
    return out


class TF:
    """A tagifiable object (not self-rendering) whose expansion is given."""

    def __init__(self, result):
        self.result = result

    def tagify(self):
        return self.result


class RH:
    """A self-rendering object."""

    def __init__(self, html: str):
        self.html = html

    def _repr_html_(self) -> str:
        return self.html
