#!/usr/bin/env python3
"""Regenerate MANIFEST.json from tools/manifest_meta.json + which harness modules exist."""
import json, os, sys
ROOT = os.path.dirname(os.path.dirname(os.path.abspath(__file__)))
meta = json.load(open(os.path.join(ROOT, "tools", "manifest_meta.json")))
props = [json.loads(l) for l in open(os.path.join(ROOT, "properties.jsonl"))]
checks, na = [], []
for p in props:
    pid = p["id"]
    m = meta["checks"].get(pid)
    if m and os.path.exists(os.path.join(ROOT, "harness", pid.lower() + ".py")) and not m.get("not_applicable"):
        checks.append({
            "property_id": pid,
            "quick_cmd": f"./vf check {pid} --tier quick",
            "thorough_cmd": f"./vf check {pid} --tier thorough",
            "evidence_file": f"/verif/evidence/{pid}.json",
            "replay_cmd_template": "./vf replay {path}",
            "engine": "crosshair-bmc",
            "level_claimed": {"category": "model_checking", "text": m["text"], "design_ref": m.get("design_ref", "DESIGN.md §6 " + pid)},
            "level_note": m["note"],
            "technique": m.get("technique", meta["default_technique"]),
        })
    else:
        na.append({"property_id": pid, "reason": (m or {}).get("not_applicable", "check not built yet (work in progress)")})
man = {
    "version": 1,
    "setup_cmd": "bash engine/bootstrap.sh",
    "hooks": meta["hooks"],
    "engines": [{"name": "crosshair-bmc", "path": "/verif/engine", "serves_properties": [c["property_id"] for c in checks],
                 "kind_free_text": "bounded symbolic execution of the real /repo byte-code with CrossHair 0.0.110 + z3; sharded over 16 cores; native replay of every counterexample"}],
    "checks": checks,
    "notes": meta["notes"],
    "not_applicable": na,
}
json.dump(man, open(os.path.join(ROOT, "MANIFEST.json"), "w"), indent=1)
print("checks:", [c["property_id"] for c in checks], "n/a:", [n["property_id"] for n in na])
