#!/usr/bin/env python3
"""Ingest an independently written change: tools/ingest_seed.py <worktree> <PROP> <name> "<needs>"
Verifies, in fresh scratch copies of /repo outside /repo and /verif (removed afterwards):
  - patch.diff applies, - the unedited suite passes with it, - demo.py exits non-zero with it and 0 without it.
Then stores seeded/<name>/{patch.diff,demo.py,notes.md,meta.json}. Run tools/selftest.py seeded-<name> afterwards."""
import json, os, shutil, subprocess, sys, tempfile
ROOT = os.path.dirname(os.path.dirname(os.path.abspath(__file__)))
wt, prop, name, needs = sys.argv[1:5]
seed = os.path.join(wt, "_seed")
tmp = tempfile.mkdtemp(prefix="vf-ingest-")
ran = []
try:
    def copy(dst):
        shutil.copytree("/repo", dst, ignore=shutil.ignore_patterns(".git", "__pycache__", "*.egg-info"))
    clean, mut = os.path.join(tmp, "clean"), os.path.join(tmp, "mut")
    copy(clean); copy(mut)
    r = subprocess.run(["patch", "-p1", "-s", "-i", os.path.join(seed, "patch.diff")], cwd=mut, capture_output=True, text=True)
    assert r.returncode == 0, "patch does not apply: " + r.stdout + r.stderr
    ran.append("patch -p1 < patch.diff on a scratch copy of /repo HEAD: ok")
    env = lambda d: {**os.environ, "PYTHONPATH": d, "PYTHONDONTWRITEBYTECODE": "1"}
    t = subprocess.run(["/venv/bin/python", "-m", "pytest", "-q", "-p", "no:cacheprovider"], cwd=mut, capture_output=True, text=True, env=env(mut))
    tail = t.stdout.strip().splitlines()[-1] if t.stdout.strip() else ""
    ran.append(f"suite with the change: rc={t.returncode} {tail}")
    assert t.returncode == 0, "test suite fails with the change: " + t.stdout[-800:]
    d1 = subprocess.run(["/venv/bin/python", os.path.join(seed, "demo.py")], cwd=tmp, capture_output=True, text=True, env=env(mut))
    d0 = subprocess.run(["/venv/bin/python", os.path.join(seed, "demo.py")], cwd=tmp, capture_output=True, text=True, env=env(clean))
    ran.append(f"demo.py with the change: rc={d1.returncode}; without: rc={d0.returncode}")
    assert d1.returncode != 0 and d0.returncode == 0, f"demo: with={d1.returncode} without={d0.returncode}\n{d1.stdout[-500:]}\n{d0.stdout[-500:]}{d0.stderr[-500:]}"
finally:
    shutil.rmtree(tmp, ignore_errors=True)
dst = os.path.join(ROOT, "seeded", name)
os.makedirs(dst, exist_ok=True)
for f in ("patch.diff", "demo.py", "notes.md"):
    if os.path.exists(os.path.join(seed, f)):
        shutil.copy(os.path.join(seed, f), os.path.join(dst, f))
json.dump({"property": ([x.strip() for x in prop.split(",")] if "," in prop else prop), "needs_to_manifest": needs, "written_by": "independent sub-agent given only the property text and a scratch worktree",
           "verified": ran, "base_commit": subprocess.run(["git", "-C", "/repo", "rev-parse", "--short", "HEAD"], capture_output=True, text=True).stdout.strip()},
          open(os.path.join(dst, "meta.json"), "w"), indent=1)
print("\n".join(ran)); print("stored", dst)
