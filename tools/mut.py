#!/usr/bin/env python3
"""Create selftest/<name>.patch: replace OLD by NEW in /repo/<file> (on a scratch copy; /repo untouched).
usage: tools/mut.py NAME PROPS FILE   with stdin = OLD + "\n====\n" + NEW   (several FILE/stdin blocks separated by "\n####\n" not supported)
"""
import difflib, os, sys
name, props, rel = sys.argv[1:4]
old, new = sys.stdin.read().split("\n====\n")
new = new.rstrip("\n") if not new.endswith("\n\n") else new[:-1]
old = old.rstrip("\n")
src = open(os.path.join("/repo", rel)).read()
assert src.count(old) == 1, f"OLD occurs {src.count(old)} times"
dst = src.replace(old, new)
diff = "".join(difflib.unified_diff(src.splitlines(True), dst.splitlines(True), "a/" + rel, "b/" + rel))
out = os.path.join(os.path.dirname(os.path.dirname(os.path.abspath(__file__))), "selftest", name + ".patch")
mode = "a" if os.path.exists(out) and "--append" in sys.argv else "w"
with open(out, mode) as f:
    if mode == "w":
        f.write(f"# property: {props}\n")
    f.write(diff)
print("wrote", out, diff.count("\n@@"), "hunks")
