#!/bin/bash
# sanity before committing: every harness module imports, MANIFEST and evidence validate
cd "$(dirname "$0")/.." || exit 1
.venv/bin/python - <<'PY' || exit 1
import importlib, json, sys
sys.path.insert(0, ".")
for l in open("properties.jsonl"):
    importlib.import_module("harness." + json.loads(l)["id"].lower())
print("harness modules import ok")
PY
python3-vt - <<'PY' || exit 1
import json, jsonschema, glob
jsonschema.validate(json.load(open("MANIFEST.json")), json.load(open("/root/.vp/MANIFEST.schema.json")))
for f in glob.glob("evidence/*.json"):
    jsonschema.validate(json.load(open(f)), json.load(open("/root/.vp/EVIDENCE.schema.json")))
print("manifest + evidence validate")
PY
