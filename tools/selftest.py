#!/usr/bin/env python3
"""Mutant battery: apply each selftest/*.patch (or seeded/*/patch.diff) to a scratch copy of /repo
(outside /repo and /verif, removed afterwards), and run the named property's check against the copy
(PYTHONPATH shadows the editable install). Expect exit 1 + VIOLATION.

usage: tools/selftest.py [--tests] [--tier quick] [--jobs N] [name-substring ...]
Patch header lines:  '# property: C02'   (one or several, comma separated)
"""
import argparse, glob, json, os, re, shutil, subprocess, sys, tempfile
from concurrent.futures import ThreadPoolExecutor

ROOT = os.path.dirname(os.path.dirname(os.path.abspath(__file__)))

def patches():
    out = []
    for p in sorted(glob.glob(os.path.join(ROOT, "selftest", "*.patch"))):
        props = []
        for l in open(p):
            m = re.match(r"#\s*property:\s*(.*)", l)
            if m: props = [x.strip() for x in m.group(1).split(",")]
        out.append((os.path.basename(p)[:-6], p, props))
    for d in sorted(glob.glob(os.path.join(ROOT, "seeded", "*"))):
        mp, pp = os.path.join(d, "meta.json"), os.path.join(d, "patch.diff")
        if os.path.exists(mp) and os.path.exists(pp):
            meta = json.load(open(mp))
            pr = meta.get("property"); pr = pr if isinstance(pr, list) else [pr]
            out.append(("seeded-" + os.path.basename(d), pp, pr))
    return out

def run_one(item, a):
    name, patch, props = item
    tmp = tempfile.mkdtemp(prefix="vf-selftest-")
    try:
        work = os.path.join(tmp, "repo")
        shutil.copytree("/repo", work, ignore=shutil.ignore_patterns(".git", "__pycache__", "*.egg-info"))
        r = subprocess.run(["patch", "-p1", "-s", "-i", patch], cwd=work, capture_output=True, text=True)
        if r.returncode != 0:
            return name, props, "PATCH-FAILED " + (r.stdout + r.stderr)[-300:], {}
        res = {}
        if a.tests:
            t = subprocess.run(["/venv/bin/python", "-m", "pytest", "-q", "-p", "no:cacheprovider", "-x"], cwd=work,
                               capture_output=True, text=True, env={**os.environ, "PYTHONPATH": work, "PYTHONDONTWRITEBYTECODE": "1"})
            res["tests"] = "pass" if t.returncode == 0 else "FAIL: " + t.stdout[-300:]
        ev = os.path.join(tmp, "ev"); os.makedirs(ev)
        for pr in props:
            env = {**os.environ, "PYTHONPATH": work, "VERIF_EVIDENCE_DIR": ev, "VERIF_REPLAY_DIR": ev, "VERIF_JOBS": str(a.inner_jobs)}
            c = subprocess.run([os.path.join(ROOT, "vf"), "check", pr, "--tier", a.tier], capture_output=True, text=True, env=env)
            viol = [l for l in c.stdout.splitlines() if l.startswith("VIOLATION") or l.startswith("  harness=")]
            res[pr] = {"exit": c.returncode, "lines": viol[:4], "summary": [l for l in c.stdout.splitlines() if l.startswith("SUMMARY")]}
        caught = any(isinstance(v, dict) and v["exit"] == 1 for v in res.values())
        return name, props, "CAUGHT" if caught else "MISSED", res
    finally:
        shutil.rmtree(tmp, ignore_errors=True)

def main():
    ap = argparse.ArgumentParser()
    ap.add_argument("--tests", action="store_true"); ap.add_argument("--tier", default="quick")
    ap.add_argument("--jobs", type=int, default=2); ap.add_argument("--inner-jobs", type=int, default=8)
    ap.add_argument("names", nargs="*")
    a = ap.parse_args()
    items = [i for i in patches() if not a.names or any(n in i[0] for n in a.names)]
    bad = 0
    with ThreadPoolExecutor(max_workers=a.jobs) as ex:
        for name, props, verdict, res in ex.map(lambda i: run_one(i, a), items):
            print(f"{verdict:8} {name} {props}")
            for k, v in res.items():
                print("    ", k, json.dumps(v)[:600])
            if verdict != "CAUGHT": bad += 1
    print(f"{len(items) - bad}/{len(items)} caught")
    return 1 if bad else 0

if __name__ == "__main__":
    sys.exit(main())
